#!/usr/bin/env python3
"""tools/keep_seeded.py <WT-ID> <seeded-id> <check> '<caught|missed-then-caught|...>' '<notes>'
copies the deliverables of a sub-agent from /tmp/wt/<WT-ID>/SEEDED to /verif/seeded/<seeded-id>/ and records what was verified"""
import json, os, shutil, sys
wt, sid, check, verdict, notes = sys.argv[1:6]
src = '/tmp/wt/%s/SEEDED' % wt
dst = '/verif/seeded/%s' % sid
os.makedirs(dst, exist_ok=True)
for f in os.listdir(src):
    if f.endswith(('.diff', '.py', '.json', '.txt', '.yaml', '.md')):
        shutil.copy(os.path.join(src, f), os.path.join(dst, f))
meta = json.load(open(os.path.join(dst, 'meta.json')))
def tail(p):
    try:
        return open(p).read()[-600:]
    except Exception:
        return None
meta['verified_by_harness_author'] = {
    'demo_with_change_tail': tail('/tmp/wt/%s.with.txt' % wt),
    'demo_without_change_tail': tail('/tmp/wt/%s.without.txt' % wt),
    'how': 'tools/verify_seeded.sh %s in the scratch worktree (demo run with the change, git stash, demo run without, stash pop)' % wt,
    'check': check, 'verdict': verdict, 'notes': notes,
    'check_command': 'tools/try_seeded.sh seeded/%s/patch.diff %s' % (sid, check),
}
json.dump(meta, open(os.path.join(dst, 'meta.json'), 'w'), indent=1)
print('kept', dst, sorted(os.listdir(dst)))
