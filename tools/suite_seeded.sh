#!/bin/bash
# tools/suite_seeded.sh <seeded-id> : full existing test-suite with the seeded patch applied, in a scratch worktree (xdist -n 6)
ID=$1
WT=/tmp/wt/suite-$ID
git -C /repo worktree add -q --detach $WT HEAD || exit 2
git -C $WT apply /verif/seeded/$ID/patch.diff || { echo "patch does not apply"; git -C /repo worktree remove --force $WT; exit 3; }
cd $WT
PYTHONPATH=$WT/python timeout 3000 /venv/bin/python -m pytest -q -p no:cacheprovider --timeout=900 -n 6 --junitxml=/tmp/wt/suite-$ID.xml tests > /tmp/wt/suite-$ID.log 2>&1
python3 - $ID <<'PY'
import xml.etree.ElementTree as ET, json, sys
sid=sys.argv[1]
t=ET.parse('/tmp/wt/suite-%s.xml'%sid); r=t.getroot(); ts=r if r.tag=='testsuite' else r[0]
base=json.load(open('/root/.vp/BASELINE.json')); stable=set(base['stable_pass'])
res={}
for tc in ts.iter('testcase'):
    res['%s::%s'%(tc.attrib['classname'],tc.attrib['name'])]=not any(c.tag in ('failure','error','skipped') for c in tc)
failing=[n for n in stable if not res.get(n)]
out={'tests':ts.attrib.get('tests'),'failures':ts.attrib.get('failures'),'stable_pass_now':sum(1 for n in stable if res.get(n)),'stable_total':len(stable),'stable_failing':failing}
print(sid, json.dumps(out))
m=json.load(open('/verif/seeded/%s/meta.json'%sid)); m['full_suite_with_change']=out; m['full_suite_how']='tools/suite_seeded.sh %s (pytest -n 6 in a scratch worktree with the patch applied)'%sid
json.dump(m,open('/verif/seeded/%s/meta.json'%sid,'w'),indent=1)
PY
git -C /repo worktree remove --force $WT
