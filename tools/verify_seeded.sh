#!/bin/bash
# tools/verify_seeded.sh <ID>  : in the scratch worktree /tmp/wt/<ID>: demo fails with the change, passes without
WT=/tmp/wt/$1
cd $WT || exit 2
DEMO=$(ls SEEDED/demo.py SEEDED/test_demo.py 2>/dev/null | head -1)
echo "demo: $DEMO"
run_demo() {
  if [[ "$DEMO" == *test_demo.py ]]; then
    PYTHONPATH=$WT/python timeout 600 /venv/bin/python -m pytest -q -p no:cacheprovider -x $DEMO > $1 2>&1
  else
    PYTHONPATH=$WT/python timeout 600 /venv/bin/python $DEMO > $1 2>&1
  fi
  echo $?
}
git diff -- python > /tmp/wt/$1.applied.diff
echo "with change: rc=$(run_demo /tmp/wt/$1.with.txt)"; tail -3 /tmp/wt/$1.with.txt
git stash -q -- python
echo "without change: rc=$(run_demo /tmp/wt/$1.without.txt)"; tail -3 /tmp/wt/$1.without.txt
git stash pop -q
git diff --stat -- python | tail -2
