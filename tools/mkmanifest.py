#!/usr/bin/env python3
"""Regenerates /verif/MANIFEST.json from the table below (keeps it schema-valid and in step with the checks)."""
import json
import os

V = os.path.dirname(os.path.dirname(os.path.abspath(__file__)))

FIXES = ['6a70867 fix: a replicated component named like a folder of the instance keeps its aggregating consumer', 'b9fb549 fix: a running component that is asked to finish also looks at its engine, not only at notifications', '2d30979 fix: a component that is stopped while its restart is being decided is not launched again', '9ebbf5c fix: a repeating engine has not exited while its monitor is inside an iteration', '5d7c116 fix: a repeating engine counts as alive from the moment its restart is decided', '620a429 fix: the stage-completion hook does not hold opt_lock while it stops the stage', '983c28b fix: an engine that was shut down while its restart was being prepared does not start a task', '188921f fix: an input that is staged as a link or a copied directory can be staged again', '33108c1 fix: the completion of the workflow can be observed after a restart from a later stage', '585e755 fix: a component named like a folder of the instance keeps its consumers', '2a623d9 fix: components that were never staged are recorded when the stage-completion hook stops the stage', 'cbcc319 fix: an instance keeps its name when it is loaded again', 'e15941d fix: progress and cost are numbers again when the status file is read back', 'abbe6aa fix: the placeholders of a DoWhile are replicated with the variables of its own stages', 'ce378d1 fix: the variables of a platform created by its first variable have both scopes', '45e2b94 fix: an interrupted consolidation of the output directory is completed when the instance is opened', '1ae9c37 fix: only stage<N>.conf defines a stage of a DOSINI package', 'd4273eb fix: the DOSINI instance description is replaced file by file, never truncated', '49ea202 fix: a monitor that gives up on an unreliable file system ends like a cancelled one', 'bc502c6 fix: a component stopped while it is suspended for system instability keeps its final state', '2c41961 fix: a DoWhile does not start a new iteration once the controller is stopping', "f31ff37 fix: the stored instance description layers the platform's environments over the default ones", "fa085b6 fix: the engine's state is built from a consistent pair of task and finish time", 'd46d796 fix: output.txt is converted to JSON without treating any line as a comment', '52e4650 fix: a configuration resolved with ignore_convert_errors is not cached', 'b05e4f8 fix: the location of a reference to a looped component is that of its latest iteration', '190b6e0 fix: a restarted run keeps the key-outputs that are already listed', '1d285ac fix: the instance description lists its components in a stable order', 'e7e6437 fix: a DoWhile bound to another DoWhile can instantiate its next iteration', 'e2e3ff8 fix: imported documents may reference each other whatever the order of the $import entries', 'b45635a fix: every use of a reference in a string of a DoWhile component is rewritten', '1eb7874 fix: a component whose restart is refused for lack of restarts receives its final state', '532126a fix: an observer waits for a subject that was put down before it ever launched', 'd8fc495 fix: a repeating engine whose task cannot be submitted after its producers finished stops', '6574790 fix: components written with YAML anchors do not share their definition', 'c0b76da fix: cache entries of components whose name is special in a regular expression are invalidated', "fba04e1 fix: the stored instance description keeps the precedence of the platform's global blueprint", '1399b94 fix: a loop can iterate after a restart from a stage that follows a finished loop', '36600e0 fix: a DoWhile bound to a replicated producer can instantiate its next iteration', '9c19d56 fix: references of a looped component are rewritten in one pass', 'c26827f fix: a user variable file given more than once is layered at its last position', '3621346 fix: state of a DoWhile document follows its own condition component', 'da09844 fix: loop iterations are ordered numerically, not as strings', '57a5672 fix: multi-line key-output descriptions keep output.txt parsable', 'c40342c fix: output.txt is converted to JSON without configparser interpolation', 'e963c27 fix: error description read back from status.txt keeps its outer whitespace', '0d4bbfc fix: Status.writeToStream escapes a copy of the error description', '5cdb903 fix: status_details.json is not replaced by a partially written temporary file', 'e4f1411 fix: instance description and manifest are replaced atomically', 'd84b6cf fix: user variable files are layered in the order given', '89bfe12 fix: resubmission cap also applies when SubmissionFailed is listed in restartHookOn', '0c051f0 fix: a component receives exactly one final state', '9e3a59a fix: controller ignores a POSTMORTEM notification whose engine is alive again', '98a674a fix: ComponentState publishes snapshots of its state, not the live dictionary', 'd4798f8 fix: repeating engine that never launched observes its finished producers once', 'd4a57bc fix: repeating engine honours kill-after-producers-done-delay between executions']

E1_NOTE = ("trusted base: sim/kernel.py (baton-passing scheduler, virtual clock) faithfully replaces threading/time/"
           "datetime/ThreadPoolExecutor; the scripted SimTask stands for every backend; pre-emption at synchronisation "
           "points and (a share of runs) at function entries/lines of the runtime modules; sampled, not exhaustive")

CHECKS = {
    'C01': dict(check='c01', engine='E1-runtime-sim', category='exploration', design='§3 C01',
                technique='deterministic simulation with fault injection (seeded schedules + task-exit/launch faults), invariant at every submission and task creation',
                text='seeded search over generated workflow DAGs x per-execution exit/launch faults x thread schedules with the real '
                     'Controller; at every ComponentState.run() and task creation all producers are final (observer exception: '
                     'subject launched), none failed, none shut down for non-aggregators. Exploration is the right level: the '
                     'property quantifies over interleavings of controller callbacks, which only a controlled scheduler can place.',
                note=E1_NOTE),
    'C02': dict(check='c02', also=['c02loop'], engine='E1-runtime-sim', category='exploration', design='§3 C02',
                technique='deterministic simulation with fault injection, final states vs executable reference model of the documented rules, bounded-termination liveness',
                text='same simulated runs judged after the stage loop: one stable final state per component, states equal the '
                     'rule model fed with the observed exit reasons (or failed/shut-down verdict rules), stage loop terminates '
                     'within a virtual-time bound; the listed open findings (lost POSTMORTEM edge) are reported as KNOWN-FINDING. Second half '
                     'of the command (c02loop): DoWhile packages (one or two documents) under the same Controller with task failures '
                     'inside the loop body at a seeded iteration, judged with the clauses that need no loop-specific rule '
                     '(termination, one stable final state incl. instances created on the way, no failure / k iterations when every '
                     'history ends in Success, failed component + failed stage otherwise).',
                note=E1_NOTE),
    'C12': dict(check='c12', engine='E1-runtime-sim', category='exploration', design='§3 C12',
                technique='deterministic simulation with fault injection (exit-reason sequences, launch failures, restart-hook answers), launch history vs restart policy',
                text='seeded failure sequences (up to 12 executions), every maxRestarts/restartHookFile/restartHookOn combination and '
                     'hook outcome, under the real Controller/Engine; oracle over the recorded launch history: relaunch only after '
                     'a restartable exit or failed submission, never after killed/cancelled, restarts <= maximum, <= 5 consecutive '
                     'resubmissions, refused restart ends in a final state.',
                note=E1_NOTE),
    'C13': dict(check='c13', engine='E1-runtime-sim', category='exploration', design='§3 C13',
                technique='deterministic simulation with fault injection, ordering oracle on globally sequenced launch/output/notification events',
                text='one repeating observer with 1-2 same-stage producers under the real controller; seeded placement of the '
                     'producers-finished notification relative to the observer poll, its running task and its 5 s gap; oracle (a) '
                     'no execution before producer output, (b) no stop before an execution that began after the last output, (c) '
                     'bounded attempts and termination after the notification.',
                note=E1_NOTE),
}

CHECKS['C15'] = dict(check='c15', engine='E5-environment-sim', category='exploration', design='§3 C15',
                     technique='deterministic simulation of environment nondeterminism (fresh interpreters per hash seed, seeded listing order, shuffled mapping key order), canonical-dump equality + layering model',
                     text='generated FlowIR and DSL 2.0 packages loaded through experimentFromPackage, graphFromPackage and '
                          'configurationForExperiment in several simulated environments; byte-identical canonical dumps (names, '
                          'edges, resolved configurations, environments, memoization hashes) and last-variable-file-wins checked '
                          'on every use of a user variable.',
                     note='trusted base: the canonical dump (checks/c15_loader.py) covers what the statement lists; per-run system '
                          'values (instance path, FLOW_RUN_ID) are normalised; sampled packages and environments, not exhaustive')

CHECKS['C08'] = dict(check='c08', engine='E3-history-vs-model', category='exploration', design='§3 C08',
                     technique='deterministic simulation of operation histories (seeded mutator/query sequences) against a from-scratch reference model, with shrinking',
                     text='seeded histories of the public mutators of FlowIRConcrete interleaved with queries; after every step '
                          'get_component_configuration on the live caching object equals a FlowIRConcrete rebuilt from raw() for every '
                          'platform and three flag combinations (or both fail with the same error class); tampered return values '
                          'never reappear. The only nondeterminism is the order of reads and writes, which the seeded generator owns.',
                     note='trusted base: FlowIRConcrete(raw()) as the meaning of "from scratch"; sequences only (no concurrent callers, '
                          'which the property does not quantify over); sampled histories of up to 40 operations; every batch ends with one '
                          'graph-level history on a generated DoWhile package (ComponentSpecification.setOption / '
                          'instantiate_dowhile_next_iteration / configuration queries) - it reproduces the listed open finding')

CHECKS['C14'] = dict(check='c14', also=['c14rt'], engine='E4-simfs-fault-enumeration', category='fault_enumeration', design='§3 C14',
                     technique='deterministic simulation with fault injection on a simulated file layer: every write boundary of an update x {crash before/after, torn flush, EIO, ENOSPC, rename failure}, old-or-new oracle + read-back fidelity',
                     text='for each of eight writers (the five of the statement, the DOSINI flavour of the instance description, and consolidate(), the move of the output directory that ends a run) a generated history of updates is run fault-free (read-back equals '
                          'the values last written after every update), then every write boundary of the last update is hit with every '
                          'fault kind; afterwards each state file must be byte-identical to the complete previous or complete new '
                          'version and must load, and after a handled I/O error the next update must succeed. Enumeration of the fault '
                          'space of one history is the right level: the property quantifies over crash points. In situ (c14rt): a DoWhile '
                          'workflow under the real Controller with a real StatusMonitor thread and OutputAgent, process death at a seeded '
                          'write boundary of any writer while the others are mid-flight; every state file must then load and the '
                          'instance must load as an experiment. A fifth of the in-situ runs die *between* updates instead (after a stage) and are '
                          'restarted from the next stage with a new controller, StatusMonitor and OutputAgent: every key-output entry '
                          'listed before the restart must still be listed at the end.',
                     note='trusted base: sim/simfs.py models process death and I/O errors (not power loss: fsync ordering is outside C14); '
                          'un-flushed data is lost at a crash, a torn flush leaves a seeded prefix; histories are sampled, boundaries of '
                          'long YAML dumps are sampled down to max_boundaries in the quick tier')

E2_NOTE = ('trusted base: the reference unroller / snapshot in checks/e2.py encode the statement; crash+restart is modelled as '
           'dropping every object and loading the instance directory again; the harness plays the controller\'s part of an '
           'iteration (working directories, task output files); sampled histories, k up to 25')
CHECKS['C05'] = dict(check='c05', also=['c05rt'], engine='E2-history-restart-sim', category='exploration', design='§3 C05',
                     technique='deterministic simulation of iteration histories with crash+reload faults, graph/placeholders/state/resolve() vs independent reference unroller',
                     text='generated DoWhile packages driven through k (up to 25, always crossing 10 in a share of runs) real '
                          'instantiate_dowhile_next_iteration calls with seeded crash+reload points; after every step node set, '
                          'predecessors of every loop instance, placeholder represents/latest, loop state and resolve() of :ref, '
                          ':output, :loopref, :loopoutput references from outside the loop equal the reference unroller. 30 % of the '
                          'packages hold a second DoWhile document (same names in other stages, the same file imported twice, or '
                          'suffixed names in shared stages) iterated in a seeded interleaving; the controller path (c05rt) runs the '
                          'same packages, two loops included, under the real Controller on the kernel.',
                     note=E2_NOTE)
CHECKS['C07'] = dict(check='c07', engine='E2-history-restart-sim', category='exploration', design='§3 C07',
                     technique='deterministic simulation of store/reload histories (restart with only durable state), before/after equality + load-store fixpoint',
                     text='loop packages (reload between iterations) and plain packages (platforms, user variable files, replication) '
                          'are created, iterated, dropped and reloaded from their own instance files for 1-4 cycles; component set, '
                          'resolved configurations, data references, edges, variables, platform, loop state and placeholders must be '
                          'equal and the parsed stored description must be a fixpoint.',
                     note=E2_NOTE)

NOT_APPLICABLE = {
    'C03': 'pure rewrite of a component list (FlowIR.apply_replicate): no schedule, clock, fault or history to simulate',
    'C04': 'pure fold of configuration layers plus substitution; no state between calls (state across calls is C08)',
    'C06': 'tree walk from a DSL namespace to FlowIR; no I/O, time or concurrency in the statement',
    'C09': 'string functions over name sets (parse/print/classify references)',
    'C10': 'string replacement given resolved values; no interleaving or fault in the statement',
    'C11': 'a predicate on documents; input space only',
    'C16': 'a function of definitions and file contents; the iff over pairs of definitions is input space',
    'C17': 'a function of configuration and one snapshot of os.environ',
    'C18': 'adversarial inputs (archive member names, manifest keys), not faults or schedules',
    'C19': 'dump/load round trip on documents; pure',
    'C20': 'arithmetic on a list of stage weights at load time',
}
PENDING = {}


FIX_NOTE = ('see DESIGN.md (section 8 = as built). No hook commits exist in /repo (all seams are monkeypatches); /repo carries %d unguarded fix: commits for genuine defects found by these checks (listed as "fixed:" in known_findings.json, which also holds the open findings printed as KNOWN-FINDING): ' % len(FIXES)) + '; '.join(FIXES)


def main():
    checks = []
    for pid in sorted(CHECKS):
        c = CHECKS[pid]
        checks.append({
            'property_id': pid,
            'quick_cmd': ' && '.join('./run %s --tier quick%s' % (x, ' --merge-evidence' if i else '')
                                     for i, x in enumerate([c['check']] + c.get('also', []))),
            'thorough_cmd': ' && '.join('./run %s --tier thorough%s' % (x, ' --merge-evidence' if i else '')
                                        for i, x in enumerate([c['check']] + c.get('also', []))),
            'evidence_file': 'evidence/%s.json' % pid,
            'replay_cmd_template': './run %s --replay {path}' % c['check'],
            'engine': c['engine'],
            'level_claimed': {'category': c['category'], 'text': c['text'], 'design_ref': c['design']},
            'level_note': c['note'],
            'technique': c['technique'],
        })
    na = [{'property_id': k, 'reason': v} for k, v in sorted({**NOT_APPLICABLE, **PENDING}.items())]
    m = json.load(open(os.path.join(V, 'MANIFEST.json')))
    m['checks'] = checks
    m['notes'] = FIX_NOTE
    m['not_applicable'] = na
    with open(os.path.join(V, 'MANIFEST.json'), 'w') as f:
        json.dump(m, f, indent=1)
        f.write('\n')
    try:
        import jsonschema
        jsonschema.validate(m, json.load(open('/root/.vp/MANIFEST.schema.json')))
        print('MANIFEST.json valid: %d checks, %d not applicable' % (len(checks), len(na)))
    except ImportError:
        print('written (jsonschema not available to validate)')


if __name__ == '__main__':
    main()
