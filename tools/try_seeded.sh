#!/bin/bash
# tools/try_seeded.sh <patch.diff> <check> [extra ./run args]   -> runs <check> against a scratch copy of /repo with the patch applied
set -e
PATCH=$(realpath "$1"); CHECK=$2; shift 2
NAME=$(echo "$PATCH" | md5sum | cut -c1-8)
ROOT=/dev/shm/verif-seeded-$NAME
rm -rf $ROOT; mkdir -p $ROOT
cp -r /repo/python $ROOT/python
(cd $ROOT && git init -q . && git apply --whitespace=nowarn "$PATCH") || { echo "PATCH DOES NOT APPLY"; rm -rf $ROOT; exit 3; }
cd /verif
set +e
VERIF_REPO=$ROOT ./run $CHECK --no-evidence "$@"
RC=$?
rm -rf $ROOT
exit $RC
