#!/bin/bash
# tools/regress_seeded.sh [jobs] [ids...] : for every kept seeded change (or the ids given), apply it to a scratch copy
# of /repo's CURRENT tree (after all fix: commits) and run the quick tier of the check recorded as catching it
# (then 150 s of the thorough tier when the quick pass is clean: the random stream has moved since the change was kept).
# Changes are grouped by check and each group runs sequentially: two instances of the same check with the same
# VERIF_SEED share their /dev/shm scratch roots (keyed by case) and would disturb each other.
# Output: one line per change: <id> <check> stale|caught|MISSED ... ; merged into seeded/REGRESSION.txt
JOBS=${1:-4}; shift
cd /verif
IDS=${@:-$(ls seeded | grep -E '^C[0-9]+-[0-9]+$')}
one() {
  id=$1
  c=$(jq -r '.verified_by_harness_author.check // "?"' seeded/$id/meta.json | awk '{print $1}')
  if ! git -C /repo apply --check /verif/seeded/$id/patch.diff 2>/dev/null; then
    echo "$id $c stale (the lines it edits were rewritten by a later fix: commit)"; return
  fi
  for extra in "" "--tier thorough --budget 150"; do
    out=$(VERIF_WORKERS=4 timeout 1500 tools/try_seeded.sh seeded/$id/patch.diff $c --tier quick $extra 2>&1)
    rc=$?
    v=$(echo "$out" | grep -a -m1 "^violation sig" | cut -c1-110)
    if [ $rc -eq 1 ] && [ -n "$v" ]; then echo "$id $c caught ${extra:+(thorough tier, 150 s) }$v"; return; fi
  done
  echo "$id $c MISSED rc=$rc $(echo "$out" | tail -1 | cut -c1-120)"
}
group() { for id in $(cat $1); do one $id; done; }
export -f one group
D=$(mktemp -d /dev/shm/regress.XXXX)
for id in $IDS; do
  c=$(jq -r '.verified_by_harness_author.check // "?"' seeded/$id/meta.json | awk '{print $1}')
  echo $id >> $D/$c.grp
done
ls $D/*.grp | xargs -P $JOBS -I{} bash -c 'group {}' | tee $D/out
touch seeded/REGRESSION.txt
grep -v "^head of" seeded/REGRESSION.txt | awk 'NR==FNR{new[$1]=1; next} !($1 in new)' $D/out - > $D/old
sort $D/old $D/out > seeded/REGRESSION.txt
echo "head of /repo: $(git -C /repo rev-parse --short HEAD)  date: $(date -u +%FT%TZ)" >> seeded/REGRESSION.txt
rm -rf $D
