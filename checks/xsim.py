"""Cross-check of the harness (not registered as a property check): the same kernel and probes, but the repository's own
`simulator` backend (experiment.runtime.backend_interfaces.task_simulator.SimulatorTask) instead of sim.runtime.SimTask.
Used by checks/selftest.py fidelity: the C01 invariants and a plain "everything finishes" must hold on a fixed
4-component workflow with a repeating observer for every seed."""
import random

from checks import common, wf

PROPERTY = 'C01'
LEVEL = 'exploration'
BOOT = {'kernel': True}
TIERS = {'quick': {'runs': 48, 'budget_s': 120, 'shrink_runs': 20, 'opts': {'max_vtime': 4000.0, 'wall_timeout': 120}},
         'thorough': {'runs': 480, 'budget_s': 600, 'shrink_runs': 20, 'opts': {'max_vtime': 4000.0, 'wall_timeout': 120}}}
RULE = 'fixed workflow A -> B, A -> Obs (repeating), B -> C (next stage) on the repository\'s simulator backend; seeded schedules'
REAL = common.REAL_E1 + ['experiment.runtime.backend_interfaces.task_simulator.SimulatorTask (real)']
STUB = [s for s in common.STUB_E1 if 'SimTask' not in s]
ASSUMPTIONS = common.ASSUMPTIONS_E1

FLOWIR = """
components:
- {name: A, stage: 0, command: {executable: ls, arguments: /tmp}, resourceManager: {config: {backend: simulator}},
   variables: {sim_range_execution_time: '%(a)s', sim_range_schedule_overhead: '0'}}
- {name: B, stage: 0, command: {executable: ls, arguments: "/tmp stage0.A:ref"}, references: ["stage0.A:ref"],
   resourceManager: {config: {backend: simulator}}, variables: {sim_range_execution_time: '%(b)s', sim_range_schedule_overhead: '0'}}
- {name: Obs, stage: 0, command: {executable: ls, arguments: "/tmp stage0.A:ref"}, references: ["stage0.A:ref"],
   resourceManager: {config: {backend: simulator}}, variables: {sim_range_execution_time: '3', sim_range_schedule_overhead: '0'},
   workflowAttributes: {isRepeat: true, repeatInterval: %(iv)s}}
- {name: C, stage: 1, command: {executable: ls, arguments: "/tmp stage0.B:ref"}, references: ["stage0.B:ref"],
   resourceManager: {config: {backend: simulator}}, variables: {sim_range_execution_time: '%(c)s', sim_range_schedule_overhead: '0'}}
"""


def gen_case(seed, tier, index=0):
    rr = random.Random(seed)
    return {'params': {'a': rr.choice([5, 20]), 'b': rr.choice([3, 10]), 'c': rr.choice([2, 10]), 'iv': rr.choice([3.0, 7.0])},
            'knobs': common.knobs_from(rr, tier), 'sched_seed': rr.getrandbits(48)}


def run_case(case, schedule, opts):
    simk, R, K, root = common.setup_run(case, schedule, opts, 'xsim')
    import experiment.runtime.backends as B
    import experiment.runtime.backend_interfaces.task_simulator as TS
    B.backendGeneratorMap['simulator'] = B.SimulatorTaskGenerator  # the repository's own backend
    B.backendTaskMap['simulator'] = TS.SimulatorTask
    REC = R.REC
    R.CTX = ctx = R.RunContext(R.Plan({}, {}))
    result = {'violations': []}
    outcomes = []
    stop = None
    try:
        exp = R.build_experiment(FLOWIR % case['params'], root)
        ctx.exp = exp
        controller, comps = R.new_controller(exp)
        ctx.controller = controller
        R.run_stages(exp, controller, REC, outcomes)
        states = R.states_of(controller)
    except simk.SimStop as e:
        stop = e.reason
        states = {}
    K.freeze()
    nodes = wf.node_table(ctx.controller) if ctx.controller is not None else {}
    if nodes:
        wf.oracle_c01(nodes, REC.events, result['violations'])
    if stop is not None or any(s != 'finished' for s in states.values()) or any(o['result'] != 'ok' for o in outcomes):
        result['violations'].append({'property': 'C01', 'sig': 'xsim:workflow-did-not-finish',
                                     'detail': {'stop': stop, 'states': states, 'outcomes': [o['result'] for o in outcomes]}})
    result['sample'] = {'params': case['params'], 'states': states}
    return common.finish_run(simk, R, K, root, result)
