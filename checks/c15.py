"""C15 - loading a package is deterministic (E5: the "schedule" is the environment's own nondeterminism).

One case = a batch of generated packages, each loaded in several simulated environments (fresh interpreter with its own
PYTHONHASHSEED, seeded permutation of directory listings, re-shuffled mapping key order of the input documents) through
the three public entry points that accept the options. Oracle: byte-identical canonical dumps across environments, and
user variable files layered in the order given (the last one wins).
"""
import copy
import json
import os
import random
import shutil
import subprocess
import sys

PROPERTY = 'C15'
LEVEL = 'exploration'
BOOT = {'kernel': False}
TIERS = {
    'quick': {'runs': 48, 'budget_s': 120, 'shrink_runs': 40, 'opts': {'wall_timeout': 280, 'envs': 6}},
    'thorough': {'runs': 900, 'budget_s': 1500, 'shrink_runs': 80, 'opts': {'wall_timeout': 400, 'envs': 12}},
}
RULE = ('each evaluation = one batch of generated packages (FlowIR and DSL 2.0; platforms, global/stage/platform variables, '
        'environments, replication+aggregation, several user variable files defining the same variables) loaded through '
        'Experiment.experimentFromPackage, WorkflowGraph.graphFromPackage and ExperimentConfigurationFactory.'
        'configurationForExperiment in N simulated environments (fresh interpreter per PYTHONHASHSEED, seeded listing '
        'order, shuffled mapping key order). distinct_nontrivial = distinct (package, environment) loads whose dump is '
        'non-empty; non-trivial = the package has at least two variable files or a replicated component')
REAL = ['ExperimentPackage.packageFromLocation', 'Experiment.experimentFromPackage', 'WorkflowGraph.graphFromPackage',
        'ExperimentConfigurationFactory.configurationForExperiment', 'FlowIR/DSL front-ends, replication, layering, '
        'environments, memoization hashes', 'real file system under /dev/shm', 'real interpreter hash randomisation']
STUB = ['os.listdir/os.scandir/os.walk/glob.glob -> seeded permutations of the real listing',
        'input documents re-serialised with shuffled mapping key order (sequences untouched)']
ASSUMPTIONS = ['per-run system values (instance directory name, FLOW_RUN_ID style paths) are normalised before comparison',
               'the order of sequences in the input (component lists, argument lists, the list of variable files) is input, not noise',
               'a clean batch is evidence over the sampled packages x environments, not a proof']


# ---------------------------------------------------------------------------------------------------
def gen_flowir_package(rr, idx):
    platforms = ['default'] + (['px'] if rr.random() < 0.5 else [])
    uvars = ['uva', 'uvb', 'uvc'][:rr.choice([1, 2, 3])]
    doc = {'platforms': platforms,
           'variables': {'default': {'global': {'g1': 'one', 'g2': '%(g1)s-two'}, 'stages': {0: {'s0v': 'zero'}}}},
           'environments': {'default': {'env1': {'DEFAULTS': 'PATH', 'FOO': 'bar', 'ZED': '%(g1)s'},
                                        'env2': {'BAZ': 'qux'}}},
           'components': []}
    # chained environment variables (2-3 levels, optionally self-referencing): their expansion must not depend on the
    # order in which the keys are listed
    chain = {'BASE_DIR': '/opt/base', 'APP_DIR': '${BASE_DIR}/app', 'BIN_DIR': '${APP_DIR}/bin'}
    if rr.random() < 0.5:
        chain['LIB_DIR'] = '$APP_DIR/lib:${BIN_DIR}'
    if rr.random() < 0.3:
        chain['APP_DIR'] = '${BASE_DIR}/app:${APP_DIR}'
    items = list(chain.items())
    rr.shuffle(items)
    doc['environments']['default']['env3'] = dict(items)
    for v in uvars:
        doc['variables']['default']['global'][v] = 'default-%s' % v
    if 'px' in platforms:
        doc['variables']['px'] = {'global': {'g1': 'uno'}, 'stages': {0: {'s0v': 'cero'}}}
        doc['environments']['px'] = {'env1': {'FOO': 'barx'}}
    ncomp = rr.randint(2, 5)
    fan_in = rr.random() < 0.2  # an aggregating component over two replicated producers
    if fan_in:
        ncomp = max(ncomp, 3)
    names = ['alpha', 'beta', 'gamma', 'delta', 'eps']
    r_names = rr.random()
    if r_names < 0.4:
        # names that contain one another: references are rewritten textually when producers are replicated
        names = ['proc', 'postproc', 'preproc', 'subproc', 'eps']
        rr.shuffle(names)
    elif r_names < 0.5:
        # names that are also the names of directories the runtime creates inside an instance
        names = ['output', 'stages', 'gamma', 'delta', 'eps']
    nstages = rr.choice([1, 2])
    replicated = {}
    for i in range(ncomp):
        stage = 0 if i < 2 or nstages == 1 else 1
        c = {'name': names[i], 'stage': stage,
             'command': {'executable': 'echo',
                         'arguments': ' '.join(['UV[%s=%%(%s)s]' % (u, u) for u in rr.sample(uvars, rr.randint(1, len(uvars)))]
                                               + ['%(g2)s', 'UV[g1=%(g1)s]'] + (['UV[s0v=%(s0v)s]'] if stage == 0 else [])),
                         'environment': rr.choice(['env1', 'env2', 'env3', 'env3', 'none'])},
             'variables': {'cv': 'c%d' % i}}
        if c['command']['environment'] == 'none':
            del c['command']['environment']
        prods = [p for p in doc['components'] if p['stage'] <= stage]
        refs = []
        for p in rr.sample(prods, min(len(prods), rr.choice([0, 1, 2]))):
            r = ('%s:ref' % p['name']) if (p['stage'] == stage and rr.random() < 0.7) else ('stage%d.%s:ref' % (p['stage'], p['name']))
            refs.append(r)
        if fan_in and i < 2:
            refs = []
        if fan_in and i == 2:
            refs = [('%s:ref' % p['name']) if (stage == 0 and rr.random() < 0.5) else ('stage0.%s:ref' % p['name'])
                    for p in doc['components'][:2]]
            rr.shuffle(refs)
        in_repl = any(replicated.get(r.split(':')[0].split('.')[-1]) for r in refs)
        wa = {}
        if fan_in and i < 2:
            wa['replicate'] = 2
            in_repl = True
        elif fan_in and i == 2:
            wa['aggregate'] = True
            in_repl = False
        elif not refs and rr.random() < 0.4:
            wa['replicate'] = 2
            in_repl = True
        elif in_repl and rr.random() < 0.5:
            wa['aggregate'] = True
            in_repl = False
        replicated[names[i]] = in_repl
        if refs:
            c['references'] = refs
            c['command']['arguments'] += ' ' + ' '.join(refs)
        if wa:
            c['workflowAttributes'] = wa
        doc['components'].append(c)
    # inherited settings: blueprints (default/platform, global/stage scope) and per-platform overrides of a component
    if rr.random() < 0.5:
        bp = {}
        if rr.random() < 0.6:
            bp.setdefault('default', {})['global'] = {'resourceManager': {'config': {'walltime': rr.choice([30.0, 90.0])}}}
        if rr.random() < 0.5:
            bp.setdefault('default', {}).setdefault('stages', {})[nstages - 1] = {
                'workflowAttributes': {'repeatInterval': rr.choice([5, 7])}}
        if 'px' in platforms and rr.random() < 0.6:
            bp['px'] = {'global': {'resourceManager': {'config': {'walltime': 480.0}}}}
        if rr.random() < 0.4:
            bp.setdefault('default', {}).setdefault('global', {}).setdefault('workflowAttributes', {})['shutdownOn'] = ['KnownIssue']
        if bp:
            doc['blueprint'] = bp
    # explicit empty values switch an inherited (blueprint or built-in) value off: they are part of the description
    for c in doc['components']:
        if rr.random() < 0.25:
            c.setdefault('workflowAttributes', {})['restartHookOn'] = []
        if rr.random() < 0.2:
            c.setdefault('workflowAttributes', {})['shutdownOn'] = []
    for c in doc['components']:
        if 'px' in platforms and rr.random() < 0.3:
            c['override'] = {'px': {'variables': {'cv': 'px-%s' % c['variables']['cv']}}}
            if rr.random() < 0.5:
                c['override']['px']['workflowAttributes'] = {'repeatInterval': 9}
    nfiles = rr.choice([0, 1, 2, 3, 4])
    vfiles = []
    for f in range(nfiles):
        content = {'global': {}}
        for v in uvars:
            if rr.random() < 0.8:
                content['global'][v] = 'f%d-%s' % (f, v)
        if rr.random() < 0.3:
            content['stages'] = {0: {'s0v': 'f%d-s0' % f}}
        if rr.random() < 0.35:
            # a user variable that collides with one defined in the (selected) platform's global scope
            content['global']['g1'] = 'f%d-g1' % f
        if not content['global']:
            content['global'][uvars[0]] = 'f%d-%s' % (f, uvars[0])
        vfiles.append(content)
    data_files = {'data/in%d.txt' % k: 'payload %d\n' % k for k in range(rr.choice([0, 2, 5]))}
    # more top-level folders (their listing order is noise) and direct references into them
    for folder in rr.sample(['bin', 'hooks', 'extra', 'aux-data', 'zeta'], rr.choice([0, 2, 4])):
        for k in range(rr.choice([1, 3])):
            data_files['%s/f%d.txt' % (folder, k)] = '%s %d\n' % (folder, k)
    if data_files:
        direct = sorted(f for f in data_files if f.startswith('data/'))
        for c in doc['components']:
            if direct and rr.random() < 0.4:
                ref = '%s:%s' % (rr.choice(direct), rr.choice(['ref', 'copy']))
                c.setdefault('references', []).append(ref)
                c['command']['arguments'] += ' ' + (ref if ref.endswith(':ref') else '')
    pkg = {'kind': 'flowir', 'name': 'pkg%d' % idx, 'doc': doc, 'variable_files': vfiles, 'files': data_files,
           'platform': rr.choice(platforms) if rr.random() < 0.5 else None}
    if len(vfiles) >= 2 and rr.random() < 0.3:
        # a file given twice (e.g. a site default repeated after a specific file so that it wins)
        order = list(range(len(vfiles)))
        order.insert(rr.randrange(1, len(order) + 1), rr.randrange(len(vfiles)))
        pkg['variable_order'] = order
    return pkg


def gen_dsl_package(rr, idx):
    nsteps = rr.randint(2, 4)
    steps = ['s%s' % 'abcd'[i] for i in range(nsteps)]  # component names must not end with a digit
    uvars = ['foo', 'bar']
    wf_exec = []
    for i, st in enumerate(steps):
        args = {'message': 'msg %d' % i, 'other': 'UV[foo=%(foo)s] UV[bar=%(bar)s]'}
        if i > 0 and rr.random() < 0.7:
            args['message'] = '<%s>:ref' % steps[rr.randrange(i)]
            if rr.random() < 0.5:
                # one producer consumed through several distinct references (files of its directory, other methods)
                p = steps[rr.randrange(i)]
                extra = rr.sample(['<%s>/out/a.csv:ref' % p, '<%s>/out/b.csv:ref' % p, '<%s>:output' % p,
                                   '<%s>/log.txt:output' % p, '<%s>:ref' % p], rr.choice([2, 3, 4]))
                args['message'] = ' '.join([args['message']] + [x for x in extra if x != args['message']])
        if rr.random() < 0.6:
            # explicit environments: equal mappings passed by several steps (their key order is noise) must end up
            # as one shared environment with one name
            args['environment'] = dict(rr.choice([
                [('DEFAULTS', 'PATH'), ('A_VAR', 'x'), ('B_VAR', 'y')],
                [('DEFAULTS', 'PATH:LD_LIBRARY_PATH'), ('C_VAR', 'z'), ('A_VAR', 'x')]]))
        wf_exec.append({'target': '<%s>' % st, 'args': args})
    doc = {
        'entrypoint': {'entry-instance': 'main', 'execute': [{'target': '<entry-instance>',
                                                              'args': {'foo': 'world', 'bar': 'there'}}]},
        'workflows': [{'signature': {'name': 'main', 'parameters': [{'name': 'foo'}, {'name': 'bar'}]},
                       'steps': {st: 'echo' for st in steps}, 'execute': wf_exec}],
        'components': [{'signature': {'name': 'echo', 'parameters': [
            {'name': 'message'}, {'name': 'other', 'default': 'a default'},
            {'name': 'environment', 'default': {'DEFAULTS': 'PATH:LD_LIBRARY_PATH', 'AN_ENV_VAR': 'ITS_VALUE'}}]},
            'command': {'environment': '%(environment)s', 'executable': 'echo',
                        'arguments': '%(message)s %(other)s'}}],
    }
    nfiles = rr.choice([0, 2, 3])
    vfiles = [{'global': {v: 'f%d-%s' % (f, v) for v in uvars if rr.random() < 0.8} or {'foo': 'f%d-foo' % f}}
              for f in range(nfiles)]
    return {'kind': 'dsl', 'name': 'pkg%d' % idx, 'doc': doc, 'variable_files': vfiles, 'files': {}, 'platform': None}


def gen_dosini_package(rr, idx):
    """the legacy package format: conf/experiment.conf + conf/stages.d/stage<N>.conf (+ variables, status)"""
    n = rr.choice([1, 2, 3])
    files = {
        'data/in.txt': 'hello\n',
        'conf/experiment.conf': "[DEFAULT]\nname=Test\n[SANDBOX]\n[ENV-MYENV]\nFOO=bar\nBAZ=%s\n" % rr.choice(['1', 'x y']),
        'conf/variables.conf': "[GLOBAL]\nn=%d\nmsg=hi\n[STAGE1]\nk=1\n" % n,
        'conf/stages.d/stage0.conf': ("[DEFAULT]\njob-type=local\n[Gen]\nexecutable=echo\narguments=%(msg)s data/in.txt:ref\n"
                                      "references=data/in.txt:ref\nenvironment=myenv\nreplicate=%(n)s\n"
                                      "[Agg]\nexecutable=cat\narguments=Gen:ref/out.stdout\nreferences=Gen:ref\naggregate=yes\n"),
        'conf/stages.d/stage1.conf': ("[DEFAULT]\njob-type=local\n[Final]\nexecutable=cat\n"
                                      "arguments=stage0.Agg:output %(k)s\nreferences=stage0.Agg:output\n"),
        'conf/status.conf': "[STAGE0]\nstage-weight=0.5\n[STAGE1]\nstage-weight=0.5\n",
    }
    if rr.random() < 0.5:
        # what an editor or a careless copy leaves next to the real files
        stray = rr.choice(['stage0.orig.conf', 'stage1.bak.conf', 'stage0.old.conf'])
        src = 'conf/stages.d/%s.conf' % stray.split('.')[0]
        files['conf/stages.d/%s' % stray] = files[src].replace('executable=echo', 'executable=printf').replace(
            'executable=cat', 'executable=head')
    return {'kind': 'dosini', 'name': 'pkg%d' % idx, 'doc': {}, 'variable_files': [], 'files': files, 'platform': None}


def gen_case(seed, tier, index=0):
    rr = random.Random(seed)
    pk = []
    for i in range(4):
        r = rr.random()
        pk.append(gen_dsl_package(rr, i) if r < 0.25 else gen_dosini_package(rr, i) if r < 0.35 else gen_flowir_package(rr, i))
    nenv = TIERS[tier]['opts']['envs']
    envs = [{'hashseed': rr.randrange(1, 4294967295), 'listing_seed': rr.getrandbits(32), 'key_seed': rr.getrandbits(32)}
            for _ in range(nenv)]
    envs[0] = {'hashseed': 0, 'listing_seed': None, 'key_seed': None}  # the reference environment
    return {'packages': pk, 'envs': envs}


def shrink_candidates(case):
    if len(case['packages']) > 1:
        for i in range(len(case['packages'])):
            c = copy.deepcopy(case)
            c['packages'] = [case['packages'][i]]
            yield c
    if len(case['envs']) > 2:
        for i in range(1, len(case['envs'])):
            c = copy.deepcopy(case)
            c['envs'] = [case['envs'][0], case['envs'][i]]
            yield c
    for i, p in enumerate(case['packages']):
        if len(p['variable_files']) > 2:
            for j in range(len(p['variable_files'])):
                c = copy.deepcopy(case)
                del c['packages'][i]['variable_files'][j]
                c['packages'][i].pop('variable_order', None)
                yield c
        comps = p['doc'].get('components') or []
        if p['kind'] == 'flowir' and len(comps) > 1:
            c = copy.deepcopy(case)
            last = c['packages'][i]['doc']['components'].pop()
            yield c
    for i, e in enumerate(case['envs']):
        for k in ('listing_seed', 'key_seed'):
            if e.get(k) is not None:
                c = copy.deepcopy(case)
                c['envs'][i][k] = None
                yield c


# ---------------------------------------------------------------------------------------------------
def shuffle_keys(obj, rng):
    if isinstance(obj, dict):
        items = list(obj.items())
        rng.shuffle(items)
        return {k: shuffle_keys(v, rng) for k, v in items}
    if isinstance(obj, list):
        return [shuffle_keys(v, rng) for v in obj]
    return obj


def fix_stage_keys(obj):
    """cases travel as JSON: stage indices under a 'stages' mapping are integers in the documents"""
    if isinstance(obj, dict):
        out = {}
        for k, v in obj.items():
            v = fix_stage_keys(v)
            if k == 'stages' and isinstance(v, dict):
                v = {int(a): b for a, b in v.items()}
            out[k] = v
        return out
    if isinstance(obj, list):
        return [fix_stage_keys(v) for v in obj]
    return obj


def materialise(pkg, root, key_seed):
    import yaml
    # unique per case: the repository derives the name of a shared /tmp shadow directory from the package name
    path = os.path.join(root, '%s-%s.package' % (pkg['name'], os.path.basename(root).split('-')[-1]))
    shutil.rmtree(path, ignore_errors=True)
    os.makedirs(os.path.join(path, 'conf'))
    doc = fix_stage_keys(copy.deepcopy(pkg['doc']))
    vfs = [fix_stage_keys(copy.deepcopy(v)) for v in pkg['variable_files']]
    if key_seed is not None:
        rng = random.Random(key_seed)
        doc = shuffle_keys(doc, rng)
        vfs = [shuffle_keys(v, rng) for v in vfs]
    if pkg['kind'] != 'dosini':
        fname = 'flowir_package.yaml' if pkg['kind'] == 'flowir' else 'dsl.yaml'
        with open(os.path.join(path, 'conf', fname), 'w') as f:
            yaml.safe_dump(doc, f, sort_keys=False)
    for rel, content in pkg['files'].items():
        full = os.path.join(path, rel)
        os.makedirs(os.path.dirname(full), exist_ok=True)
        with open(full, 'w') as f:
            f.write(content)
    vpaths = []
    vdir = os.path.join(root, 'vars-%s' % pkg['name'])
    shutil.rmtree(vdir, ignore_errors=True)
    os.makedirs(vdir)
    for k, v in enumerate(vfs):
        # names chosen so that neither lexical order nor hash order coincides with the given order by construction
        p = os.path.join(vdir, '%s-%d.yaml' % ('zyxwv'[k % 5], k))
        with open(p, 'w') as f:
            yaml.safe_dump(v, f, sort_keys=False)
        vpaths.append(p)
    if pkg.get('variable_order'):
        # the same file may be given more than once: the order given is the layering order
        vpaths = [vpaths[i] for i in pkg['variable_order'] if i < len(vpaths)]
    return path, vpaths


def first_diff(a, b, path=''):
    if type(a) != type(b):
        return path or '/', a, b
    if isinstance(a, dict):
        for k in sorted(set(a) | set(b)):
            if k not in a or k not in b:
                return '%s/%s' % (path, k), a.get(k, '<missing>'), b.get(k, '<missing>')
            d = first_diff(a[k], b[k], '%s/%s' % (path, k))
            if d:
                return d
        return None
    if isinstance(a, list):
        if len(a) != len(b):
            return path + '[len]', len(a), len(b)
        for i, (x, y) in enumerate(zip(a, b)):
            d = first_diff(x, y, '%s[%d]' % (path, i))
            if d:
                return d
        return None
    return None if a == b else (path, a, b)


def files_as_given(pkg):
    vfs = pkg['variable_files']
    if pkg.get('variable_order'):
        return [vfs[i] for i in pkg['variable_order'] if i < len(vfs)]
    return vfs


def expected_layering(pkg):
    exp = {}
    for vf in files_as_given(pkg):
        for k, v in (vf.get('global') or {}).items():
            exp[k] = v
    stage0 = {}
    for vf in files_as_given(pkg):
        st = vf.get('stages') or {}
        for k, v in (st.get(0) or st.get('0') or {}).items():
            stage0[k] = v
    return exp, stage0


def run_case(case, schedule, opts):
    import hashlib
    import time
    key = hashlib.sha256(json.dumps(case, sort_keys=True).encode()).hexdigest()[:12]
    root = '/dev/shm/verif-c15-%s' % key
    shutil.rmtree(root, ignore_errors=True)
    os.makedirs(root)
    result = {'violations': [], 'counters': {}}
    cnt = result['counters']
    dumps = []
    py = sys.executable
    loader = os.path.join(os.path.dirname(os.path.abspath(__file__)), 'c15_loader.py')
    try:
        for ei, env in enumerate(case['envs']):
            pk = []
            for p in case['packages']:
                path, vpaths = materialise(p, root, env.get('key_seed'))
                pk.append({'path': path, 'variable_files': vpaths, 'platform': p.get('platform')})
            spec = {'packages': pk, 'scratch': root, 'listing_seed': env.get('listing_seed')}
            sp = os.path.join(root, 'spec.json')
            with open(sp, 'w') as f:
                json.dump(spec, f)
            e = dict(os.environ, PYTHONHASHSEED=str(env['hashseed']), TZ='UTC', PYTHONDONTWRITEBYTECODE='1')
            pr = subprocess.run([py, '-W', 'ignore', loader, sp], env=e, stdout=subprocess.PIPE, stderr=subprocess.PIPE,
                                timeout=240)
            if pr.returncode != 0:
                raise RuntimeError('loader failed: %s' % pr.stderr.decode()[-1500:])
            dumps.append(json.loads(pr.stdout.decode()))
            cnt['fault.fresh_interpreter_hashseed'] = cnt.get('fault.fresh_interpreter_hashseed', 0) + 1
            if env.get('listing_seed') is not None:
                cnt['fault.listing_order_permuted'] = cnt.get('fault.listing_order_permuted', 0) + 1
            if env.get('key_seed') is not None:
                cnt['fault.mapping_key_order_shuffled'] = cnt.get('fault.mapping_key_order_shuffled', 0) + 1
        nontrivial = 0
        for pi, p in enumerate(case['packages']):
            ref = dumps[0]['packages'][pi]
            if 'harness_error' in ref:
                raise RuntimeError(ref['harness_error'])
            for entry in ('experiment', 'graph', 'conf'):
                if 'error' in ref[entry]:
                    cnt['load_error.%s' % entry] = cnt.get('load_error.%s' % entry, 0) + 1
            if len(p['variable_files']) >= 2 or any((c.get('workflowAttributes') or {}).get('replicate')
                                                     for c in (p['doc'].get('components') or []) if 'name' in c):
                nontrivial += len(case['envs'])
            for ei in range(1, len(dumps)):
                other = dumps[ei]['packages'][pi]
                for entry in ('experiment', 'graph', 'conf'):
                    a, b = ref[entry], other[entry]
                    if 'error' in a and 'error' in b:
                        # a package that does not load is outside the statement; only *whether* it loads must agree
                        a, b = {'error': a['error'].split(':')[0]}, {'error': b['error'].split(':')[0]}
                    d = first_diff(a, b)
                    if d:
                        where = d[0].split('/')
                        top = where[1] if len(where) > 1 else ''
                        result['violations'].append({
                            'property': 'C15', 'sig': 'nondeterministic:%s:%s:%s' % (p['kind'], entry, top),
                            'detail': {'package': p['name'], 'entry': entry, 'path': d[0], 'reference_env': case['envs'][0],
                                       'other_env': case['envs'][ei], 'reference_value': d[1], 'other_value': d[2],
                                       'variable_files': len(p['variable_files'])}})
                        break
            # layering model: the last file given wins; observed in the resolved arguments of the components, where
            # every use of a user variable is marked UV[name=value]
            exp_g, exp_s0 = expected_layering(p)
            want = dict(exp_g)
            want.update(exp_s0)
            import re as _re
            for ei in range(len(dumps)):
                got = dumps[ei]['packages'][pi]
                for entry in ('experiment', 'graph', 'conf'):
                    if 'error' in got[entry]:
                        continue
                    comps = got[entry].get('nodes') or got[entry].get('components') or {}
                    bad = None
                    for cname, cd in sorted(comps.items()):
                        cfg = cd.get('config') if 'config' in cd else cd
                        try:
                            args = cfg['command']['arguments']
                        except Exception:
                            continue
                        for (k, v) in _re.findall(r'UV\[(\w+)=([^\]]*)\]', str(args)):
                            cnt['probe.user_variable_uses_checked'] = cnt.get('probe.user_variable_uses_checked', 0) + 1
                            if k in want and v != str(want[k]):
                                bad = (cname, k, v)
                                break
                        if bad:
                            break
                    if bad:
                        provided = set()
                        for vf in p['variable_files']:
                            for scope in (vf.get('global') or {},):
                                if bad[1] in scope:
                                    provided.add(str(scope[bad[1]]))
                            st = vf.get('stages') or {}
                            for sv in (st.get(0) or st.get('0') or {},):
                                if bad[1] in sv:
                                    provided.add(str(sv[bad[1]]))
                        what = ('last-variable-file-does-not-win' if bad[2] in provided
                                else 'variable-files-not-applied[%s]' % p['kind'])
                        result['violations'].append({
                            'property': 'C15', 'sig': 'layering:%s:%s' % (entry, what),
                            'detail': {'package': p['name'], 'entry': entry, 'component': bad[0], 'variable': bad[1],
                                       'expected': want[bad[1]], 'got': bad[2], 'env': case['envs'][ei],
                                       'files': p['variable_files']}})
        cnt['probe.package_env_loads'] = len(case['packages']) * len(case['envs'])
        cnt['probe.nontrivial_loads'] = nontrivial
        cnt['probe.packages_with_several_variable_files'] = sum(1 for p in case['packages'] if len(p['variable_files']) >= 2)
        cnt['probe.dsl_packages'] = sum(1 for p in case['packages'] if p['kind'] == 'dsl')
    finally:
        shutil.rmtree(root, ignore_errors=True)
    seen = set()
    uniq = []
    for v in result['violations']:
        if v['sig'] not in seen:
            seen.add(v['sig'])
            uniq.append(v)
    result['violations'] = uniq
    h = hashlib.sha256(json.dumps([d['packages'] for d in dumps[:1]], sort_keys=True).encode()).hexdigest()[:16]
    result['digest'] = h
    result['abstract'] = h
    result['distinct_units'] = cnt.get('probe.nontrivial_loads', 0)
    result['sample'] = {'package': case['packages'][0]['doc'], 'variable_files': case['packages'][0]['variable_files'],
                        'envs': case['envs'][:3],
                        'dump_excerpt': json.dumps(dumps[0]['packages'][0], sort_keys=True)[:1500] if dumps else None}
    return result
