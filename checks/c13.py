"""C13 - a repeating observer sees its producers' final output and then stops.

Workload: one repeating observer O with 1-2 same-stage producers under the real Controller, so the subscription
made in ComponentState.stageIn and RepeatingEngine.notify_all_producers_finished are the shipped ones.
"""
import copy
import random

from checks import common

PROPERTY = 'C13'
LEVEL = 'exploration'
BOOT = {'kernel': True}
TIERS = {
    'quick': {'runs': 480, 'budget_s': 150, 'shrink_runs': 120, 'opts': {'max_vtime': 6000.0, 'wall_timeout': 120}},
    'thorough': {'runs': 30000, 'budget_s': 1500, 'shrink_runs': 300, 'opts': {'max_vtime': 6000.0, 'wall_timeout': 180}},
}
RULE = ('each run = one generated observer workflow (1-2 same-stage producers, repeating or not; repeatInterval, '
        'repeatRetries, check-producer-output, kill-after-producers-done-delay; producer output pattern; observer '
        'run times and exit reasons) x one seeded schedule (pre-emption rate, stalls, optional settrace pre-emption). '
        'distinct_nontrivial counts distinct abstract histories: the order of observer launches/exits, producer '
        'outputs/exits and the producers-finished notification, as seen by the controller callbacks; a run is '
        'non-trivial when the observer launched at least once or was notified')
REAL = common.REAL_E1
STUB = common.STUB_E1
ASSUMPTIONS = common.ASSUMPTIONS_E1 + [
    'no clock skew between the runtime clock and file mtimes is injected: C13 compares them and states no tolerance',
    '"cancelled from outside" = ComponentState.finish() reached the observer while it was running (controller stop after a failure)',
]

FLOWIR_HEAD = "components:\n"


def comp_yaml(c):
    lines = ['- name: %s' % c['name'], '  command:', '    executable: echo']
    refs = c.get('refs') or []
    if refs:
        lines.append('    arguments: "%s"' % ' '.join('%s:ref' % r for r in refs))
        lines.append('  references: [%s]' % ', '.join('"%s:ref"' % r for r in refs))
    else:
        lines.append('    arguments: hello')
    wa = []
    if c.get('repeat'):
        rp = c['repeat']
        wa.append('    isRepeat: true')
        wa.append('    repeatInterval: %s' % rp['interval'])
        if rp.get('retries') is not None:
            wa.append('    repeatRetries: %d' % rp['retries'])
    if c.get('shutdownOn'):
        wa.append('    shutdownOn: [%s]' % ', '.join(c['shutdownOn']))
    if wa:
        lines.append('  workflowAttributes:')
        lines.extend(wa)
    var = dict(c.get('variables') or {})
    if var:
        lines.append('  variables:')
        for k, v in sorted(var.items()):
            lines.append('    %s: "%s"' % (k, v))
    return '\n'.join(lines) + '\n'


def render(case):
    return FLOWIR_HEAD + ''.join(comp_yaml(c) for c in case['comps'])


def gen_case(seed, tier, index=0):
    rr = random.Random(seed)
    nprod = rr.choice([1, 1, 2, 2, 3])
    comps = []
    plan = {}
    for i in range(nprod):
        name = 'PQR'[i]
        repeating = rr.random() < 0.3
        c = {'name': name}
        if repeating:
            c['repeat'] = {'interval': rr.choice([1, 3, 6]), 'retries': rr.choice([None, 0, 1])}
        nout = rr.choice([0, 1, 3, 6])
        dur = rr.choice([0.5, 5, 20, 45])
        tail = rr.choice([0.0, 0.0, 0.5, 4.0])
        # outputs spread over the run, optionally a last one right at the end
        outs = [[round(dur * (k + 1) / (nout + 1), 3), 'data.txt', 'line %d\n' % k] for k in range(nout)]
        if nout and rr.random() < 0.3:
            outs[-1][0] = dur  # last file in the same instant as the exit
        plan[name] = {'default': {'dur': dur + tail, 'exit': rr.choice(['Success'] * 6 + ['KnownIssue', 'ResourceExhausted']),
                                  'outs': outs}}
        if repeating:
            plan[name]['execs'] = [{'exit': rr.choice(['Success', 'Success', 'KnownIssue'])} for _ in range(3)]
        comps.append(c)
    interval = rr.choice([1, 3, 7, 12, 30])
    retries = rr.choice([None, 0, 1, 3])
    obs = {'name': 'O', 'refs': [c['name'] for c in comps], 'repeat': {'interval': interval, 'retries': retries},
           'variables': {}}
    if rr.random() < 0.35:
        # one producer consumed through several data references (files of its directory): the observer's producer
        # list then names it more than once
        k = rr.randrange(len(comps))
        many = ['%s/%s' % (comps[k]['name'], f) for f in rr.sample(['data.txt', 'a.txt', 'b.txt'], rr.choice([2, 3]))]
        obs['refs'] = obs['refs'][:k] + many + obs['refs'][k + 1:]
        rr.shuffle(obs['refs'])
    if rr.random() < 0.25:
        obs['variables']['check-producer-output'] = 'false'
    if rr.random() < 0.2:
        obs['variables']['kill-after-producers-done-delay'] = str(rr.choice([0, 3, 11, 40]))
    comps.append(obs)
    odur = rr.choice([0.3, 3, 8, 15])
    plan['O'] = {'default': {'dur': odur, 'exit': 'Success'},
                 'execs': [{'dur': round(odur * (0.5 + rr.random()), 3),
                            'exit': rr.choice(['Success'] * 5 + ['KnownIssue', 'ResourceExhausted'])}
                           for _ in range(12)]}
    # the backend may refuse the observer's task (at any execution, also after the producers finished; for good when
    # the default execution fails too)
    lf = rr.choice([0.0, 0.0, 0.0, 0.15, 0.5])
    if lf:
        for e in plan['O']['execs']:
            if rr.random() < lf:
                e['launch_fail'] = rr.choice(['oserror', 'joblaunch', 'joblaunch', 'valueerror'])
        if rr.random() < 0.3:
            plan['O']['default']['launch_fail'] = rr.choice(['oserror', 'joblaunch'])
    # the shared file system is flaky for a while: listing producer directories fails during seeded windows
    windows = []
    if rr.random() < 0.15:
        start = rr.choice([0.0, 5.0, 20.0, 40.0])
        windows = [[start, start + rr.choice([3.0, 12.0, 40.0, 200.0, 400.0, 1000.0])]]
        if rr.random() < 0.5:
            # a long outage while long-running repeating producers are observed: the monitor of the observer meets the
            # error again and again
            windows = [[start, start + rr.choice([400.0, 1000.0])]]
            for c in comps[:-1]:
                c['repeat'] = c.get('repeat') or {'interval': rr.choice([3, 6]), 'retries': None}
                plan[c['name']]['default']['dur'] = rr.choice([120.0, 300.0])
                plan[c['name']].setdefault('execs', [{'exit': 'Success'} for _ in range(3)])
    knobs = common.knobs_from(rr, tier)
    sched_seed = rr.getrandbits(48)
    if rr.random() < 0.12:
        # a slow observer: the monitor thread of the repeating engine is held up now and then in the middle of an
        # iteration (between deciding to run and launching), while timers and notifications go on
        knobs['slow_thread'] = ['(EngineCore)', rr.choice([0.002, 0.01, 0.03])]
        knobs['trace'] = rr.choice(['call', 'line'])
        if rr.random() < 0.6 and 'kill-after-producers-done-delay' not in obs['variables']:
            obs['variables']['kill-after-producers-done-delay'] = str(rr.choice([3, 11, 40]))
    return {'comps': comps, 'plan': plan, 'hook': {}, 'knobs': knobs,
            'sched_seed': sched_seed, 'listdir_errors': windows}


def shrink_candidates(case):
    # fewer producers
    if len(case['comps']) > 2:
        for i in range(len(case['comps']) - 1):
            c = copy.deepcopy(case)
            name = c['comps'][i]['name']
            del c['comps'][i]
            c['comps'][-1]['refs'] = [r for r in c['comps'][-1]['refs'] if r.split('/')[0] != name]
            c['plan'].pop(name, None)
            yield c
    # simpler knobs
    for k, v in (('trace', 'none'), ('pool_delay_p', 0.0), ('stall_p', 0.0), ('preempt_p', 0.0), ('launch_delay', 5.0)):
        if case['knobs'].get(k) != v:
            c = copy.deepcopy(case)
            c['knobs'][k] = v
            yield c
    # observer variables
    for k in list(case['comps'][-1].get('variables') or {}):
        c = copy.deepcopy(case)
        del c['comps'][-1]['variables'][k]
        yield c
    # all exits Success, no outputs
    for name, e in case['plan'].items():
        for idx, ex in enumerate(e.get('execs') or []):
            if ex.get('exit', 'Success') != 'Success':
                c = copy.deepcopy(case)
                c['plan'][name]['execs'][idx]['exit'] = 'Success'
                yield c
        d = e.get('default') or {}
        if d.get('exit', 'Success') != 'Success':
            c = copy.deepcopy(case)
            c['plan'][name]['default']['exit'] = 'Success'
            yield c
        if d.get('outs'):
            c = copy.deepcopy(case)
            c['plan'][name]['default']['outs'] = d['outs'][:-1]
            yield c
    # non-repeating producers
    for i, comp in enumerate(case['comps'][:-1]):
        if comp.get('repeat'):
            c = copy.deepcopy(case)
            del c['comps'][i]['repeat']
            c['plan'][comp['name']].pop('execs', None)
            yield c


def run_case(case, schedule, opts):
    simk, R, K, root = common.setup_run(case, schedule, opts, 'c13')
    import experiment.model.codes as codes
    REC = R.REC
    R.CTX = ctx = R.RunContext(R.Plan(case['plan'], case.get('hook')))
    result = {'violations': []}
    obs = case['comps'][-1]
    oref = 'stage0.O'
    prefs = sorted(set('stage0.%s' % r.split('/')[0] for r in obs['refs']))

    launch_info = []

    def on_launch(job, n, spec):
        if job.reference != oref:
            return
        has = []
        for p in job.producerInstances:
            if p.stageIndex == job.stageIndex:
                # the harness looks at the directory itself, past the injected listing errors
                saved = R.LISTDIR_FAULT['windows']
                R.LISTDIR_FAULT['windows'] = []
                try:
                    has.append(len(p.workingDirectory.output) > 0)
                except Exception:
                    has.append(None)
                finally:
                    R.LISTDIR_FAULT['windows'] = saved
        launch_info.append({'n': n, 'producer_has_output': has})

    ctx.on_launch = on_launch
    stop = None
    outcomes = []
    try:
        exp = R.build_experiment(render(case), root)
        ctx.exp = exp
        R.LISTDIR_FAULT['windows'] = case.get('listdir_errors') or []
        R.LISTDIR_FAULT['t0'] = K.clock
        controller, comps = R.new_controller(exp)
        ctx.controller = controller
        outcomes = R.run_stages(exp, controller, REC)
        oeng = controller.get_compstate(oref).engine
        alive_at_stage_end = oeng.isAlive()
        t_stage_end = K.clock
        simk.sim_sleep(90.0)  # settle: a stopped observer must not launch again
    except simk.SimStop as e:
        stop = e.reason
        result['stop_detail'] = e.detail
    K.freeze()
    ev = REC.events
    o_launch = [e for e in ev if e[2] == 'launch' and e[3] == oref]
    o_exit = {e[4]['n']: e for e in ev if e[2] == 'exit' and e[3] == oref}
    notif = [e for e in ev if e[2] == 'notified' and e[3] == oref]
    ext_cancel = [e for e in ev if e[2] == 'finish' and e[3] == oref and e[4]['state'] == codes.RUNNING_STATE]
    p_last = []
    for p in prefs:
        outs = [e[0] for e in ev if e[2] == 'output' and e[3] == p]
        exits = [e[0] for e in ev if e[2] == 'exit' and e[3] == p]
        p_last.append(max(outs) if outs else (max(exits) if exits else None))
    retries = obs['repeat']['retries']
    retries = 3 if retries is None else retries
    kill_after = (obs.get('variables') or {}).get('kill-after-producers-done-delay')
    viol = result['violations']

    def V(sig, detail):
        viol.append({'property': 'C13', 'sig': sig, 'detail': detail})

    # (a) never executes before there is producer output it can consume
    # ("output it can consume" = every same-stage producer it consumes from has produced something: an observer of
    # two producers cannot consume while one of them has nothing yet)
    for li in launch_info:
        if li['producer_has_output'] and not all(li['producer_has_output']):
            V('a:launch-without-producer-output' if not any(li['producer_has_output'])
              else 'a:launch-while-some-producer-has-no-output', li)
            break
    controller = ctx.controller
    if controller is not None and stop is None:
        oeng = controller.get_compstate(oref).engine
        stopped = not oeng.isAlive()
        could_consume = bool(oeng.consume)
        # (b) once all producers finished, it does not stop before an execution that began after their last output
        # (an observer whose monitor met six listing errors has been stopped by the outage, not by its own decision)
        outage = REC.counters.get('fault.listdir_eio', 0) >= 6
        if outage:
            REC.count('probe.observer_exposed_to_a_long_listing_outage')
        if stopped and notif and not ext_cancel and kill_after is None and could_consume and None not in p_last and not outage:
            last_out = max(p_last)
            # an execution the backend refused (failed submission) was still started by the engine
            o_refused = [e for e in ev if e[2] == 'launch-fail' and e[3] == oref]
            if not any(e[0] > last_out for e in o_launch + o_refused):
                V('b:stopped-without-observing-final-output' if o_launch else 'b:stopped-without-ever-executing',
                  {'last_output_seq': last_out, 'launch_seqs': [e[0] for e in o_launch], 'notified_seq': notif[0][0]})
        # (c) bounded attempts after the notification
        if notif:
            N = notif[0][0]
            after = [e for e in o_launch if e[0] > N]
            kstarts = [e[0] for e in ev if e[2] == 'kstart' and e[3] == oref and not e[4]['last']]
            # classify: an iteration of the engine's monitor launches at most one task; a second launch in the same
            # iteration is the one restart of a ResourceExhausted last run; an iteration that began before the
            # notification but launched after it was in flight
            began_of = {}
            n_regular = n_inflight = n_restart = 0
            restarts_ev = [e[0] for e in ev if e[2] == 'restart-begin' and e[3] == oref]
            prev = 0
            for e in o_launch:
                began = max([k for k in kstarts if k < e[0]] or [0])
                began_of[e[0]] = began
                is_restart = any(prev < r < e[0] for r in restarts_ev)
                prev = e[0]
                if e[0] > N:
                    if is_restart:
                        n_restart += 1
                    elif began < N:
                        n_inflight += 1
                    else:
                        n_regular += 1
            if n_regular > retries + 1 or n_inflight > 1 or n_restart > 1:
                V('c:too-many-executions-after-notification',
                  {'regular': n_regular, 'inflight': n_inflight, 'restart': n_restart, 'retries': retries})
            # "such" an execution began (its monitor iteration started) after the notification
            first_ok_end = None
            for e in after:
                began = began_of[e[0]]
                x = o_exit.get(e[4]['n'])
                if began > N and x is not None and x[4]['reason'] == 'Success':
                    first_ok_end = x[0]
                    break
            if first_ok_end is not None:
                later = [e for e in o_launch if e[0] > first_ok_end]
                if later:
                    restarted = any(e[2] == 'restart' and e[3] == oref and (e[4] or {}).get('code') == 'RestartInitiated'
                                    and e[0] < later[0][0] for e in ev)
                    V('c:launch-after-successful-final-execution' + ('[after-restart-of-the-repeating-engine]' if restarted else ''),
                      {'launches_after': len(later)})
            if not stopped:
                V('c:observer-never-stops', {'notified_at': notif[0][1], 'now': K.clock})
        # A launch after the engine reported dead and the stage ended on that report (an iteration that was already in
        # flight when the kill or the kill delay landed): "stops" is observed through isAlive()/exitReason(), so an
        # engine that said it had exited and then runs a task has not stopped. (Until fix 53 this was only counted,
        # on the argument that the stop is documented as soft; the soft stop lets the monitor finish *before* the
        # engine reports its exit, it does not let a dead engine come back.)
        if not alive_at_stage_end and [e for e in o_launch if e[1] > t_stage_end + 1e-6]:
            REC.count('probe.launch_after_engine_reported_dead')
            V('c:launch-after-the-engine-reported-its-exit', {'stage_end': t_stage_end,
                                                              'launches': [round(e[1], 3) for e in o_launch if e[1] > t_stage_end + 1e-6][:4]})
    elif stop is not None:
        # liveness: the observer (and hence the stage) must stop within the bound once producers are done
        # only C13's business once the precondition holds (all producers finished => the observer was notified);
        # a stage that hangs because a *producer* never reaches a final state belongs to C02
        try:
            o_alive = controller.get_compstate(oref).engine.isAlive()
        except Exception:
            o_alive = None
        if notif and o_alive:
            V('c:no-termination-within-bound', {'stop': stop, 'vtime': K.clock, 'notified_at': notif[0][1],
                                                'detail': result.get('stop_detail')})
        elif notif:
            # the observer's engine did stop; that the *component* or the stage never became final is C02's business
            REC.count('probe.capped_with_observer_engine_stopped')
        else:
            REC.count('probe.capped_before_producers_finished')
    for e in ev:
        if e[2] in ('launch', 'exit', 'output', 'notified', 'finish') and e[3] in ([oref] + prefs):
            REC.note_abstract(e[2], e[3])
    if o_launch:
        REC.count('probe.observer_launched')
    if notif:
        REC.count('probe.notified')
        N = notif[0][0]
        running_at_notif = [e for e in o_launch if e[0] < N and (o_exit.get(e[4]['n']) is None or o_exit[e[4]['n']][0] > N)]
        if running_at_notif:
            REC.count('probe.notified_while_observer_task_running')
        if any(e[0] > N for e in o_launch):
            REC.count('probe.launch_after_notification')
    if ext_cancel:
        REC.count('probe.cancelled_from_outside')
    if kill_after is not None:
        REC.count('probe.kill_delay_configured')
    if controller is not None and stop is None and not controller.get_compstate(oref).engine.consume:
        REC.count('probe.never_able_to_consume')
    result['sample'] = {'flowir': render(case), 'plan': case['plan'], 'knobs': case['knobs'],
                        'outcomes': outcomes, 'history': [[e[0], e[1], e[2], e[3]] for e in ev
                                                           if e[2] in ('launch', 'exit', 'output', 'notified', 'submit', 'finish')][:80]}
    return common.finish_run(simk, R, K, root, result)
