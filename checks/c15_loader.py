"""Runs in a FRESH interpreter (one per simulated environment): loads every package of a batch through the public
entry points and prints a canonical dump as JSON.

Environment nondeterminism owned by the seed: PYTHONHASHSEED (set by the parent), the order in which the file system
lists entries (seeded permutation of os.listdir/os.scandir/os.walk/glob results) and the key order of mappings in the
input documents (the parent writes a re-shuffled copy of every YAML document for this environment).
"""
import glob as _glob
import hashlib
import json
import os
import random
import shutil
import sys
import traceback


def install_listing_seam(seed):
    rng_seed = seed
    o_listdir = os.listdir
    o_scandir = os.scandir
    o_walk = os.walk
    o_glob = _glob.glob

    def perm(items, key):
        items = list(items)
        r = random.Random('%s|%s' % (rng_seed, key))
        r.shuffle(items)
        return items

    def listdir(path='.'):
        return perm(sorted(o_listdir(path)), path)

    class _Scan:
        def __init__(self, path):
            with o_scandir(path) as it:
                self.items = perm(sorted(it, key=lambda d: d.name), path)

        def __iter__(self):
            return iter(self.items)

        def __enter__(self):
            return self

        def __exit__(self, *a):
            return False

        def close(self):
            pass

    def scandir(path='.'):
        return _Scan(path)

    def walk(top, topdown=True, onerror=None, followlinks=False):
        for (d, dirs, files) in o_walk(top, topdown, onerror, followlinks):
            dirs[:] = perm(sorted(dirs), d + '|d')
            yield d, dirs, perm(sorted(files), d + '|f')

    def glob(pathname, *a, **kw):
        return perm(sorted(o_glob(pathname, *a, **kw)), pathname)

    os.listdir = listdir
    os.scandir = scandir
    os.walk = walk
    _glob.glob = glob


def canon(obj, subst):
    """JSON-able canonical form: dict keys sorted by json.dumps(sort_keys), paths of this run replaced"""
    if isinstance(obj, dict):
        return {str(k): canon(v, subst) for k, v in obj.items()}
    if isinstance(obj, (list, tuple)):
        return [canon(v, subst) for v in obj]
    if isinstance(obj, (set, frozenset)):
        return sorted(canon(v, subst) for v in obj)
    if isinstance(obj, str):
        for a, b in subst:
            obj = obj.replace(a, b)
        return obj
    if isinstance(obj, (int, float, bool)) or obj is None:
        return obj
    return canon(repr(obj), subst)


PER_RUN_KEYS = ('FLOW_RUN_ID',)  # a fresh uuid per load by design


def dump_graph(wg, subst, with_hashes):
    import networkx
    g = wg.graph
    out = {'nodes': {}, 'edges': sorted([a, b] for a, b in g.edges())}
    for n in sorted(g.nodes):
        spec = g.nodes[n]['componentSpecification']
        d = {}
        try:
            d['config'] = spec.configuration
        except Exception as e:
            d['config'] = 'ERR %s' % type(e).__name__
        try:
            d['refs'] = [r.stringRepresentation for r in spec.dataReferences]
        except Exception as e:
            d['refs'] = 'ERR %s' % type(e).__name__
        try:
            env = dict(wg.environmentForNode(n))
            for k in PER_RUN_KEYS:
                env.pop(k, None)
            d['env'] = env
        except Exception as e:
            d['env'] = 'ERR %s' % type(e).__name__
        if with_hashes:
            try:
                d['hash'] = spec.memoization_hash
                d['hash_fuzzy'] = spec.memoization_hash_fuzzy
            except Exception as e:
                d['hash'] = 'ERR %s' % type(e).__name__
        out['nodes'][n] = d
    # launch-environment dependent entries are not part of the package
    return canon(out, subst)


def load_one(pkg, scratch):
    import experiment.model.storage
    import experiment.model.data
    import experiment.model.graph
    import experiment.model.conf
    res = {}
    path = pkg['path']
    vfiles = pkg['variable_files']
    platform = pkg.get('platform')
    # A: full experiment (aggregates the variable files into one first)
    loc = os.path.join(scratch, 'inst')
    shutil.rmtree(loc, ignore_errors=True)
    os.makedirs(loc)
    try:
        ep = experiment.model.storage.ExperimentPackage.packageFromLocation(path, platform=platform)
        exp = experiment.model.data.Experiment.experimentFromPackage(ep, location=loc, variable_files=list(vfiles) or None,
                                                                    platform=platform)
        inst = exp.instanceDirectory.location
        subst = [(inst, '<INSTANCE>'), (os.path.realpath(inst), '<INSTANCE>'), (os.path.basename(inst), '<INSTNAME>'),
                 (path, '<PACKAGE>')]
        res['experiment'] = dump_graph(exp.experimentGraph, subst, True)
        res['experiment']['vars'] = canon(exp.experimentGraph.configuration.get_flowir_concrete(return_copy=True)
                                          .get_platform_stage_variables(0), subst)
    except Exception as e:
        res['experiment'] = {'error': '%s: %s' % (type(e).__name__, str(e)[:300])}
    finally:
        shutil.rmtree(loc, ignore_errors=True)
        for d in _glob.glob('/tmp/chpc-*-shadow/%s-*' % os.path.basename(path).rsplit('.', 1)[0]):
            shutil.rmtree(d, ignore_errors=True)
    # B: configuration level: the list of variable files is handed over as is
    try:
        ep = experiment.model.storage.ExperimentPackage.packageFromLocation(path, platform=platform)
        wg = experiment.model.graph.WorkflowGraph.graphFromPackage(
            ep, platform=platform, primitive=False, variable_files=list(vfiles), createInstanceConfiguration=False)
        subst = [(path, '<PACKAGE>')]
        res['graph'] = dump_graph(wg, subst, False)
        conc = wg.configuration.get_flowir_concrete(return_copy=True)
        res['graph']['vars'] = canon({str(s): conc.get_platform_stage_variables(s) for s in range(conc.get_stage_number())}, subst)
    except Exception as e:
        res['graph'] = {'error': '%s: %s' % (type(e).__name__, str(e)[:300])}
    # C: configuration factory
    try:
        cf = experiment.model.conf.ExperimentConfigurationFactory.configurationForExperiment(
            path, platform=platform, createInstanceFiles=False, primitive=False, variable_files=list(vfiles),
            updateInstanceFiles=False)
        conc = cf.get_flowir_concrete(return_copy=True)
        subst = [(path, '<PACKAGE>')]
        ids = sorted(conc.get_component_identifiers(recompute=True))
        res['conf'] = canon({
            'components': {'stage%d.%s' % cid: conc.get_component_configuration(cid, raw=False, include_default=True, is_primitive=False)
                           for cid in ids},
            'vars': {str(s): conc.get_platform_stage_variables(s) for s in range(conc.get_stage_number())},
        }, subst)
    except Exception as e:
        res['conf'] = {'error': '%s: %s' % (type(e).__name__, str(e)[:300])}
    return res


def main():
    spec = json.load(open(sys.argv[1]))
    sys.path.insert(0, os.path.join(os.environ.get('VERIF_REPO', '/repo'), 'python'))
    import logging
    logging.disable(logging.CRITICAL)
    if spec.get('listing_seed') is not None:
        install_listing_seam(spec['listing_seed'])
    import experiment.model.frontends.flowir  # noqa: F401
    out = {'hashseed': os.environ.get('PYTHONHASHSEED'), 'packages': []}
    # the launch environment is an input of the load (it is the default environment of a package that defines none):
    # keep it identical across the simulated environments; the hash seed is already in effect
    os.environ.pop('PYTHONHASHSEED', None)
    os.environ.pop('ST4SD_CDB_URL', None)
    for pkg in spec['packages']:
        try:
            out['packages'].append(load_one(pkg, spec['scratch']))
        except Exception:
            out['packages'].append({'harness_error': traceback.format_exc()[-1500:]})
    sys.stdout.write(json.dumps(out, sort_keys=True))


if __name__ == '__main__':
    main()
