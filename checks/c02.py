"""C02 - stage outcome does not depend on the ordering of notifications (see checks/wf.py)."""
from checks import common
from checks.wf import *  # noqa: F401,F403
from checks import wf

PROPERTY = 'C02'
TIERS = {
    'quick': {'runs': 700, 'budget_s': 150, 'shrink_runs': 150, 'opts': {'max_vtime': 6000.0, 'wall_timeout': 200}},
    'thorough': {'runs': 40000, 'budget_s': 1500, 'shrink_runs': 300, 'opts': {'max_vtime': 6000.0, 'wall_timeout': 300}},
}
RULE = ('each run = one generated multi-stage workflow x per-execution exit reasons x one seeded schedule (as C01). After '
        'the stage loop: every component of the stages that ran is in exactly one final state that stays put for 60 '
        'more virtual seconds; without an unrecoverable exit the states equal an executable model of the documented '
        'rules fed with the observed exit reasons; with one, some component is failed, its stage is reported failed and '
        'all others are in their rule-given state or shut down; the loop terminates within the virtual-time cap. '
        'distinct_nontrivial = distinct abstract histories of controller callbacks')
ASSUMPTIONS = common.ASSUMPTIONS_E1 + [
    'effective exit reason of a component = reason of its last observed task execution (restart policy itself is C12)',
    'a repeating observer whose same-stage subject ends shut down may end finished or shut down (undefined at launch, see DESIGN)',
    'bounded termination: 6000 virtual seconds (longest model critical path is < 2000 s including refused-restart sleeps)',
]


def gen_case(seed, tier, index=0):
    if index % 8 == 7:
        return wf.gen_case_observer_race(seed, tier, index)
    if index % 8 == 3:
        return wf.gen_case_busy_pool(seed, tier, index)
    return wf.gen_case_dag(seed, tier, index, restart_bias=(index % 3 == 2))
