"""C08 - configuration queries always reflect the latest updates (E3: operation histories against a reference model).

One case = a batch of histories; a history = an initial FlowIR document + a seeded sequence of the public mutators of
FlowIRConcrete interleaved with queries. After every step the answer of get_component_configuration() on the live
(caching) object must equal the answer of a FlowIRConcrete built from scratch from raw(), for every platform and for
several flag combinations; a returned configuration that the caller mutates must never show up in a later query.
"""
import copy
import json
import os
import random

PROPERTY = 'C08'
LEVEL = 'exploration'
BOOT = {'kernel': False}
TIERS = {
    'quick': {'runs': 320, 'budget_s': 120, 'shrink_runs': 300, 'opts': {'wall_timeout': 120}},
    'thorough': {'runs': 12000, 'budget_s': 1500, 'shrink_runs': 600, 'opts': {'wall_timeout': 200}},
}
RULE = ('each evaluation = a batch of 12 histories; a history = generated FlowIR (2 platforms, global/stage/platform '
        'variables, 2-4 components with variables, overrides and variable chains) + 5-40 operations drawn from '
        'set/delete_component_variable, set/remove_component_option, set_global/stage/platform_global/platform_stage_'
        'variable, add/update/delete_component, get_component(return_copy=False)+edit, get_platform_*_variables('
        'return_copy=False)+edit, query, tamper-with-returned-value. Oracle after every step. distinct_nontrivial = number '
        'of distinct histories (by content hash) that contain at least one mutator followed by a query of a warm cache entry')
REAL = ['experiment.model.frontends.flowir.FlowIRConcrete (cache, mutators, get_component_configuration)',
        'FlowIR.override_object / fill_in / convert_component_types']
STUB = ['nothing is stubbed; the reference model is FlowIRConcrete(raw(), platform, documents) built from scratch at every step']
ASSUMPTIONS = ['the property is stated over sequences of calls; concurrent callers are not part of its quantifier',
               'a live reference obtained with return_copy=False is edited immediately (before any other call), which is how the '
               'option setters of the configuration interface use it',
               'the from-scratch resolver is trusted as the meaning of "computed from scratch from the current description"']

NAMES = ['c0', 'c1', 'c2', 'c3', 'c4']
VARS = ['v1', 'v2', 'g1', 'g2', 's1']
PLATFORMS = ['default', 'px']
VALUES = ['a', 'b', '7', '%(g1)s-x', '%(v1)s/%(g2)s', '%(s1)s', 'lit %(g1)s', '%(nosuch)s']
ROUTES = ['#command.arguments', '#command.executable', '#command.environment', '#resourceManager.config.walltime',
          '#workflowAttributes.shutdownOn', '#resourceRequest.numberProcesses', '#references', 'v1', 'v2', 'newvar']
ROUTE_VALUES = {'#command.arguments': ['%(v1)s', 'x %(g1)s', '%(v2)s %(s1)s', 'plain'],
                '#command.executable': ['echo', 'ls', '%(g1)s'],
                '#command.environment': ['none', 'environment'],
                '#resourceManager.config.walltime': [10.0, 60.0, '%(v1)s'],
                '#workflowAttributes.shutdownOn': [['KnownIssue'], []],
                '#resourceRequest.numberProcesses': [1, 4, '%(v2)s'],
                '#references': [[], ['c0:ref']],
                'v1': ['q', '%(g2)s'], 'v2': ['5'], 'newvar': ['n']}


def gen_component(rr, name, stage):
    c = {'name': name, 'stage': stage,
         'command': {'executable': 'echo', 'arguments': rr.choice(['%(v1)s', '%(g1)s %(v2)s', 'hello', '%(s1)s'])},
         'variables': {'v1': rr.choice(['1', 'one', '%(g1)s']), 'v2': '2'}}
    if rr.random() < 0.4:
        c['override'] = {'px': {'variables': {'v1': 'px-v1'}, 'command': {'arguments': 'px %(v1)s'}}}
    if rr.random() < 0.3:
        # a typed option, optionally through a variable (whose value may then not convert: the query must say so)
        c['resourceManager'] = {'config': {'walltime': rr.choice([30.0, 30.0, '%(v2)s'])}}
    return c


def gen_history(rr):
    doc = {'platforms': list(PLATFORMS),
           'variables': {'default': {'global': {'g1': 'G1', 'g2': 'G2', 's1': 'gs1'}, 'stages': {'0': {'s1': 'S0'}, '1': {'s1': 'S1'}}},
                         'px': {'global': {'g1': 'PXG1'}, 'stages': {'0': {'s1': 'PXS0'}}}},
           'components': []}
    ncomp = rr.randint(2, 4)
    ids = {}
    for i in range(ncomp):
        doc['components'].append(gen_component(rr, NAMES[i], rr.choice([0, 0, 1])))
        ids[NAMES[i]] = doc['components'][-1]['stage']
    ops = []
    nops = rr.choice([5, 10, 20, 40])
    cur_platform = rr.choice(PLATFORMS)
    for _ in range(nops):
        k = rr.random()
        # mostly an existing component; sometimes an unknown one (both sides must then fail alike)
        if ids and rr.random() < 0.88:
            nm = rr.choice(sorted(ids))
            cid = [ids[nm], nm]
        else:
            cid = [rr.choice([0, 1]), rr.choice(NAMES)]
        if k < 0.22:
            ops.append({'op': 'query', 'cid': cid, 'platform': rr.choice(PLATFORMS + [None]), 'flags': rr.choice([0, 0, 0, 1, 2, 3, 3])})
        elif k < 0.32:
            ops.append({'op': 'set_component_variable', 'cid': cid, 'name': rr.choice(VARS), 'value': rr.choice(VALUES)})
        elif k < 0.38:
            ops.append({'op': 'delete_component_variable', 'cid': cid, 'name': rr.choice(VARS)})
        elif k < 0.50:
            route = rr.choice(ROUTES)
            ops.append({'op': 'set_component_option', 'cid': cid, 'route': route, 'value': rr.choice(ROUTE_VALUES[route])})
        elif k < 0.55:
            ops.append({'op': 'remove_component_option', 'cid': cid, 'route': rr.choice(ROUTES)})
        elif k < 0.61:
            ops.append({'op': 'set_global_variable', 'name': rr.choice(VARS), 'value': rr.choice(VALUES)})
        elif k < 0.66:
            ops.append({'op': 'set_stage_variable', 'stage': rr.choice([0, 1, 2]), 'name': rr.choice(VARS), 'value': rr.choice(VALUES)})
        elif k < 0.71:
            # (sometimes a platform the description does not have yet: setting its first variable creates it)
            ops.append({'op': 'set_platform_global_variable', 'name': rr.choice(VARS), 'value': rr.choice(VALUES),
                        'platform': rr.choice(PLATFORMS + [None, 'pnew'])})
        elif k < 0.76:
            ops.append({'op': 'set_platform_stage_variable', 'stage': rr.choice([0, 1]), 'name': rr.choice(VARS),
                        'value': rr.choice(VALUES), 'platform': rr.choice(PLATFORMS + [None])})
        elif k < 0.80:
            free = [n for n in NAMES if n not in ids]
            nm = rr.choice(free) if free and rr.random() < 0.8 else cid[1]
            st = rr.choice([0, 1])
            ops.append({'op': 'add_component', 'desc': gen_component(rr, nm, st)})
            ids.setdefault(nm, st)
        elif k < 0.84:
            ops.append({'op': 'update_component', 'cid': cid, 'desc': gen_component(rr, cid[1], cid[0])})
        elif k < 0.87:
            ops.append({'op': 'delete_component', 'cid': cid})
            if ids.get(cid[1]) == cid[0] and len(ids) > 1:
                del ids[cid[1]]
        elif k < 0.91:
            ops.append({'op': 'edit_live_component', 'cid': cid, 'field': rr.choice(['arguments', 'variable']),
                        'value': rr.choice(VALUES)})
        elif k < 0.94:
            ops.append({'op': 'edit_live_platform_global', 'platform': rr.choice(PLATFORMS), 'name': rr.choice(VARS),
                        'value': rr.choice(VALUES)})
        elif k < 0.96:
            ops.append({'op': 'edit_live_platform_stage', 'platform': rr.choice(PLATFORMS), 'stage': rr.choice([0, 1]),
                        'name': rr.choice(VARS), 'value': rr.choice(VALUES)})
        else:
            ops.append({'op': 'tamper', 'cid': cid, 'platform': rr.choice(PLATFORMS)})
    case = {'doc': doc, 'platform': cur_platform, 'ops': ops, 'check_seed': rr.getrandbits(32)}
    # the name of the second platform and of the components are inputs too: cache labels and the regular expressions
    # that invalidate them are built from them (non-word characters, names that are prefixes of one another)
    ren = {'px': rr.choice(['px', 'px', 'openshift-cpu', 'lsf.gpu', 'p_x'])}
    r = rr.random()
    if r < 0.3:
        ren.update({'c1': 'c', 'c2': 'c-x', 'c3': 'c.x', 'c4': 'cc'})
    elif r < 0.55:
        # valid names that are special in a regular expression
        ren.update({'c0': 'dft+u', 'c1': 'opt(2)', 'c2': 'x[0]', 'c3': 'cost$', 'c4': 'dft'})
    case = rename(case, ren)
    # what a YAML document written with anchors and aliases gives the loader: components that share one mapping object
    case['share'] = rr.choice([None, None, 'variables', 'command']) if len(case['doc']['components']) >= 2 else None
    return case


def rename(obj, ren):
    if isinstance(obj, dict):
        return {(ren.get(k, k) if isinstance(k, str) else k): rename(v, ren) for k, v in obj.items()}
    if isinstance(obj, list):
        return [rename(v, ren) for v in obj]
    if isinstance(obj, str):
        return ren.get(obj, obj)
    return obj


def gen_graph_history(rr):
    """updates through the configuration interface of a live experiment (ComponentSpecification.setOption ->
    WorkflowGraph/FlowIRExperimentConfiguration.setOptionForNode), with the one operation of that interface that adds
    components while the experiment runs: a DoWhile document instantiating its next iteration"""
    from checks import e2
    prog = e2.gen_loop_program(rr)
    prog['k'] = rr.choice([1, 2])
    prog['reloads'] = []
    prog['uservars'] = False
    prog['want_repl_input'] = False
    ops = []
    for _ in range(rr.choice([2, 4, 6])):
        r = rr.random()
        if r < 0.45:
            ops.append({'op': 'set', 'target': rr.choice(['GenerateInput', 'outside']),
                        'key': rr.choice(['#workflowAttributes.maxRestarts', '#resourceManager.config.walltime', 'newvar']),
                        'value': rr.choice([5, 7, 11])})
        elif r < 0.65:
            ops.append({'op': 'iterate'})
        else:
            ops.append({'op': 'query'})
    if not any(o['op'] == 'iterate' for o in ops):
        ops.insert(rr.randrange(1, len(ops) + 1), {'op': 'iterate'})
    return {'kind': 'graph', 'prog': prog, 'ops': ops}


def gen_case(seed, tier, index=0):
    rr = random.Random(seed)
    hs = [gen_history(rr) for _ in range(12)]
    hs.append(gen_graph_history(rr))
    return {'histories': hs}


def shrink_candidates(case):
    hs = case['histories']
    if len(hs) > 1:
        for i in range(len(hs)):
            yield {'histories': [hs[i]]}
        return
    h = hs[0]
    if h.get('kind') == 'graph':
        for i in range(len(h['ops'])):
            c = copy.deepcopy(h)
            del c['ops'][i]
            if any(o['op'] == 'iterate' for o in c['ops']) or not any(o['op'] == 'iterate' for o in h['ops']):
                yield {'histories': [c]}
        return
    ops = h['ops']
    n = len(ops)
    # drop chunks, then single operations
    size = n // 2
    while size >= 1:
        for start in range(0, n, size):
            c = copy.deepcopy(h)
            c['ops'] = ops[:start] + ops[start + size:]
            if len(c['ops']) < n:
                yield {'histories': [c]}
        size //= 2
    if len(h['doc']['components']) > 1:
        for i in range(len(h['doc']['components'])):
            c = copy.deepcopy(h)
            del c['doc']['components'][i]
            yield {'histories': [c]}
    for i, comp in enumerate(h['doc']['components']):
        for k in ('override', 'resourceManager'):
            if k in comp:
                c = copy.deepcopy(h)
                del c['doc']['components'][i][k]
                yield {'histories': [c]}


# ---------------------------------------------------------------------------------------------------
FLAGSETS = [dict(raw=False, include_default=True),  # the cached combination
            dict(raw=True, include_default=True),
            dict(raw=False, include_default=False, is_primitive=True),
            dict(raw=False, include_default=True, ignore_convert_errors=True)]  # lenient variant of the cached one


def fix_doc(doc):
    d = copy.deepcopy(doc)
    for plat, pv in (d.get('variables') or {}).items():
        if isinstance(pv.get('stages'), dict):
            pv['stages'] = {int(k): v for k, v in pv['stages'].items()}
    return d


def ask(conc, cid, platform, flags):
    try:
        return ('ok', conc.get_component_configuration(tuple(cid), platform=platform, **FLAGSETS[flags]))
    except Exception as e:
        return ('err', type(e).__name__)


def apply_op(conc, op):
    import experiment.model.frontends.flowir as F
    k = op['op']
    cid = tuple(op['cid']) if 'cid' in op else None
    if k == 'set_component_variable':
        conc.set_component_variable(cid, op['name'], op['value'])
    elif k == 'delete_component_variable':
        conc.delete_component_variable(cid, op['name'])
    elif k == 'set_component_option':
        conc.set_component_option(cid, op['route'], copy.deepcopy(op['value']))
    elif k == 'remove_component_option':
        conc.remove_component_option(cid, op['route'])
    elif k == 'set_global_variable':
        conc.set_global_variable(op['name'], op['value'])
    elif k == 'set_stage_variable':
        conc.set_stage_variable(op['stage'], op['name'], op['value'])
    elif k == 'set_platform_global_variable':
        conc.set_platform_global_variable(op['name'], op['value'], op['platform'])
    elif k == 'set_platform_stage_variable':
        conc.set_platform_stage_variable(op['stage'], op['name'], op['value'], op['platform'])
    elif k == 'add_component':
        conc.add_component(copy.deepcopy(op['desc']))
    elif k == 'update_component':
        conc.update_component(cid, copy.deepcopy(op['desc']))
    elif k == 'delete_component':
        conc.delete_component(cid)
    elif k == 'edit_live_component':
        live = conc.get_component(cid, return_copy=False)
        if op['field'] == 'arguments':
            live.setdefault('command', {})['arguments'] = op['value']
        else:
            live.setdefault('variables', {})['v1'] = op['value']
    elif k == 'edit_live_platform_global':
        conc.get_platform_global_variables(op['platform'], return_copy=False)[op['name']] = op['value']
    elif k == 'edit_live_platform_stage':
        conc.get_platform_stage_variables(op['stage'], op['platform'], return_copy=False)[op['name']] = op['value']
    else:
        raise ValueError(k)


MUTATORS = ('set_component_variable', 'delete_component_variable', 'set_component_option', 'remove_component_option',
            'set_global_variable', 'set_stage_variable', 'set_platform_global_variable', 'set_platform_stage_variable',
            'add_component', 'update_component', 'delete_component', 'edit_live_component',
            'edit_live_platform_global', 'edit_live_platform_stage')


def tamper(obj):
    if isinstance(obj, dict):
        for k in list(obj):
            if isinstance(obj[k], (dict, list)):
                tamper(obj[k])
            else:
                obj[k] = 'TAMPERED'
        obj['tampered-key'] = 'TAMPERED'
    elif isinstance(obj, list):
        obj.append('TAMPERED')


def run_history(h, cnt):
    import experiment.model.frontends.flowir as F
    viol = []
    doc = fix_doc(h['doc'])
    if h.get('share') and len(doc['components']) >= 2:
        # two components share one mapping object, as after `variables: &common {...}` / `variables: *common`
        sect = h['share']
        doc['components'][1][sect] = doc['components'][0][sect]
    conc = F.FlowIRConcrete(doc, h['platform'], {})
    rr = random.Random(h['check_seed'])
    warm = set()
    nontrivial = False
    last_mut = 'initial'

    def compare(step, pairs):
        scratch = F.FlowIRConcrete(conc.raw(), h['platform'], {})
        for (cid, plat, fl) in pairs:
            a = ask(conc, cid, plat, fl)
            b = ask(scratch, cid, plat, fl)
            cnt['probe.comparisons'] = cnt.get('probe.comparisons', 0) + 1
            if a != b:
                viol.append({'property': 'C08', 'sig': 'stale-or-wrong-after:%s' % last_mut,
                             'detail': {'step': step, 'cid': list(cid), 'platform': plat, 'flags': FLAGSETS[fl],
                                        'live': json.loads(json.dumps(a, default=repr))[:2],
                                        'from_scratch': json.loads(json.dumps(b, default=repr))[:2]}})
                return False
            if fl == 0 and a[0] == 'ok':
                warm.add((tuple(cid), plat or h['platform']))
        return True

    def all_pairs():
        ids = sorted(set(list(conc._component_dictionary.keys())))
        plats = list(h['doc']['platforms']) + [p for p in conc.platforms if p not in h['doc']['platforms']]
        return [(cid, p, fl) for cid in ids for p in plats for fl in range(len(FLAGSETS))]

    for step, op in enumerate(h['ops']):
        k = op['op']
        if k == 'query':
            ask(conc, op['cid'], op['platform'], op['flags'])
            if op['flags'] == 0:
                warm.add((tuple(op['cid']), op['platform'] or h['platform']))
        elif k == 'tamper':
            first = ask(conc, op['cid'], op['platform'], 0)
            if first[0] == 'ok':
                keep = copy.deepcopy(first[1])
                tamper(first[1])
                again = ask(conc, op['cid'], op['platform'], 0)
                cnt['probe.tamper_checks'] = cnt.get('probe.tamper_checks', 0) + 1
                if again != ('ok', keep):
                    viol.append({'property': 'C08', 'sig': 'privacy:mutated-return-value-visible-in-later-query',
                                 'detail': {'step': step, 'cid': op['cid'], 'platform': op['platform']}})
                    return viol, nontrivial
                # also the second-hand copy coming out of the cache is private
                tamper(again[1])
                third = ask(conc, op['cid'], op['platform'], 0)
                if third != ('ok', keep):
                    viol.append({'property': 'C08', 'sig': 'privacy:mutated-cached-value-visible-in-later-query',
                                 'detail': {'step': step, 'cid': op['cid'], 'platform': op['platform']}})
                    return viol, nontrivial
        else:
            try:
                apply_op(conc, op)
                cnt['op.%s' % k] = cnt.get('op.%s' % k, 0) + 1
            except Exception as e:
                cnt['op_raised.%s' % k] = cnt.get('op_raised.%s' % k, 0) + 1
            last_mut = k
            if warm:
                nontrivial = True
                cnt['probe.mutation_with_warm_cache'] = cnt.get('probe.mutation_with_warm_cache', 0) + 1
        pairs = [p for p in all_pairs() if rr.random() < 0.4]
        if not compare(step, pairs):
            return viol, nontrivial
    compare(len(h['ops']), all_pairs())
    return viol, nontrivial


def run_graph_history(h, cnt):
    import hashlib
    import shutil
    from checks import e2
    from sim import runtime as R
    import experiment.model.frontends.flowir as F
    import experiment.model.data as D
    key = hashlib.sha256(json.dumps(h, sort_keys=True).encode()).hexdigest()[:12]
    root = '/dev/shm/verif-c08g-%s' % key
    shutil.rmtree(root, ignore_errors=True)
    os.makedirs(root)
    viol = []
    prog = copy.deepcopy(h['prog'])
    try:
        exp = e2.new_instance(prog, root)
        wg = exp.experimentGraph
        e2.prepare_iteration_dirs(exp, [n for n in exp.graph.nodes], e2.iteration_of)
        targets = {'GenerateInput': 'stage0.GenerateInput',
                   'outside': 'stage%d.%s' % (prog['outside'][0]['stage'], prog['outside'][0]['name'])}
        expected = {}  # (node, key) -> value last set
        it = 0
        last_mut = None

        def read(node, key):
            conf = wg.graph.nodes[node]['componentSpecification'].configuration
            if key.startswith('#'):
                cur = conf
                for part in key[1:].split('.'):
                    cur = cur.get(part) if isinstance(cur, dict) else None
                return cur
            return (conf.get('variables') or {}).get(key)

        def check(step):
            for (node, key), val in expected.items():
                got = read(node, key)
                cnt['probe.graph_level_comparisons'] = cnt.get('probe.graph_level_comparisons', 0) + 1
                def same(a, b):
                    try:
                        return float(a) == float(b)  # options are converted to their declared type (11 -> 11.0)
                    except (TypeError, ValueError):
                        return str(a) == str(b)
                if not same(got, val):
                    viol.append({'property': 'C08', 'sig': 'update-lost-after:%s' % last_mut,
                                 'detail': {'step': step, 'node': node, 'key': key, 'value_last_set': val, 'query_returns': got,
                                            'interface': 'ComponentSpecification.setOption / configuration'}})
                    return False
            return True

        for step, op in enumerate(h['ops']):
            if op['op'] == 'set':
                node = targets[op['target']]
                wg.graph.nodes[node]['componentSpecification'].setOption(op['key'], op['value'])
                expected[(node, op['key'])] = op['value']
                last_mut = 'setOption'
                cnt['op.graph.setOption'] = cnt.get('op.graph.setOption', 0) + 1
            elif op['op'] == 'iterate':
                docs = wg._documents[F.FlowIR.LabelDoWhile]
                name = sorted(docs)[0]
                new = wg.instantiate_dowhile_next_iteration(docs[name]['document'], it + 1, False)
                it += 1
                for ref in new:
                    spec = exp.graph.nodes[ref]['componentSpecification']
                    cid = spec.identification
                    directory = exp.instanceDirectory.createJobWorkingDirectory(cid.stageIndex, cid.componentName)
                    exp.getStage(cid.stageIndex).add_job(D.Job.jobFromConfiguration(cid, wg, directory))
                last_mut = 'instantiate_dowhile_next_iteration'
                cnt['op.graph.iterate'] = cnt.get('op.graph.iterate', 0) + 1
            if not check(step):
                break
    finally:
        R.cleanup_root(root)
    return viol, True


def run_case(case, schedule, opts):
    import hashlib
    result = {'violations': [], 'counters': {}}
    cnt = result['counters']
    units = 0
    hh = hashlib.sha256()
    for h in case['histories']:
        v, nontrivial = run_graph_history(h, cnt) if h.get('kind') == 'graph' else run_history(h, cnt)
        hh.update(json.dumps(h, sort_keys=True).encode())
        if nontrivial:
            units += 1
        if v:
            result['violations'].extend(v)
            break
    cnt['probe.histories'] = len(case['histories'])
    result['digest'] = result['abstract'] = hh.hexdigest()[:16]
    result['distinct_units'] = units
    h0 = case['histories'][0]
    result['sample'] = ({'graph_level_history': h0} if h0.get('kind') == 'graph' else
                        {'initial_document': h0['doc'], 'platform': h0['platform'], 'operations': h0['ops'][:25]})
    return result
