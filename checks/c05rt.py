"""C05, controller path (E1): the same generated DoWhile packages run under the simulated Controller, so that
_handle_condition_component_finished / _instantiate_next_dowhile_iteration / get_placeholder_state execute on the
scheduler's interleavings. The condition task answers "True" k times, then "False"; a consumer outside the loop must be
launched only after the loop has terminated and must be wired to iteration k."""
import copy
import random

from checks import common, e2

PROPERTY = 'C05'
LEVEL = 'exploration'
BOOT = {'kernel': True}
TIERS = {
    'quick': {'runs': 100, 'budget_s': 100, 'shrink_runs': 40, 'opts': {'max_vtime': 8000.0, 'wall_timeout': 200}},
    'thorough': {'runs': 4000, 'budget_s': 1200, 'shrink_runs': 80, 'opts': {'max_vtime': 8000.0, 'wall_timeout': 600}},
}
RULE = ('controller path: each run = one generated DoWhile package executed by the real Controller under the kernel (seeded '
        'schedule, pre-emption, stalls), k in {0,1,2,3,9,10,11,12} iterations decided by the scripted condition task; at every '
        'task creation of a consumer outside the loop its references must resolve to iteration k, and after the run the graph, '
        'placeholders and loop state equal the reference unroller')
REAL = common.REAL_E1 + ['Controller._handle_condition_component_finished / _instantiate_next_dowhile_iteration / get_placeholder_state',
                         'WorkflowGraph.instantiate_dowhile_next_iteration']
STUB = common.STUB_E1
ASSUMPTIONS = common.ASSUMPTIONS_E1


def gen_case(seed, tier, index=0):
    rr = random.Random(seed)
    prog = e2.gen_loop_program(rr)
    prog['k'] = rr.choice([0, 1, 2, 3, 9, 10, 11, 12])
    prog['reloads'] = []
    prog['uservars'] = False
    if rr.random() < 0.3:
        # two DoWhile documents running under the same controller (same stage or different stages)
        prog['k'] = rr.choice([0, 1, 2, 3, 10])
        e2.add_second_loop(rr, prog)
        prog['second']['k'] = rr.choice([0, 1, 2, 3, 10, 11])
        prog['reloads'] = []
    rerun = False
    if rr.random() < 0.15 and not prog.get('want_repl_input'):
        # the run completes, then its last stage is run again (elaunch --restart <last stage> on a finished instance);
        # one component of that stage has an input that is staged as a link / a copied directory
        prog['linker'] = rr.choice(['link', 'copy'])
        rerun = True
    restart_stage = None
    if rr.random() < 0.3 and not rerun:
        # the stage the second loop (or the only one) is imported in, or the one after the first loop
        cands = [lp['import_stage'] for lp in e2.loops_of(prog) if lp['import_stage'] > 0]
        cands += [prog['import_stage'] + e2.span_of(prog) + 1]
        restart_stage = rr.choice(cands)
    knobs = common.knobs_from(rr, tier)
    knobs['launch_delay'] = rr.choice([0.0, 0.0, 5.0])
    dur = rr.choice([0.3, 1.0, 3.0])
    plan = {'default_dur': dur}
    return {'prog': prog, 'knobs': knobs, 'plan': {}, 'dur': dur, 'sched_seed': rr.getrandbits(48),
            'restart_stage': restart_stage, 'rerun_last_stage': rerun, 'pauses': common.gen_pauses(rr, 0.25),
            'slow_wake_p': rr.choice([0.0, 0.2, 0.5]),
            # targeted placement: the operator pauses the controller just as the condition task of a seeded iteration
            # starts, so that the condition is reported while the controller sleeps
            'pause_on_condition': ({'loop': rr.randrange(len(e2.loops_of(prog))), 'iteration': rr.choice([0, 0, 1, 2]),
                                    'extra': rr.choice([0.5, 3.0, 8.0])} if rr.random() < 0.2 else None)}


def shrink_candidates(case):
    if case.get('pauses'):
        c = copy.deepcopy(case)
        c['pauses'] = []
        yield c
    if case.get('pause_on_condition'):
        c = copy.deepcopy(case)
        c['pause_on_condition'] = None
        yield c
    p = case['prog']
    if p.get('second'):
        c = copy.deepcopy(case)
        del c['prog']['second']
        c['prog'].pop('order', None)
        yield c
        for which in ('first', 'second'):
            lp = p if which == 'first' else p['second']
            for k in (0, 1, lp['k'] - 1):
                if 0 <= k < lp['k']:
                    c = copy.deepcopy(case)
                    (c['prog'] if which == 'first' else c['prog']['second'])['k'] = k
                    yield c
        for k, v in (('trace', 'none'), ('pool_delay_p', 0.0), ('stall_p', 0.0), ('preempt_p', 0.0)):
            if case['knobs'].get(k) != v:
                c = copy.deepcopy(case)
                c['knobs'][k] = v
                yield c
        return
    for k in (0, 1, 9, 10, p['k'] - 1):
        if 0 <= k < p['k']:
            c = copy.deepcopy(case)
            c['prog']['k'] = k
            yield c
    for k, v in (('trace', 'none'), ('pool_delay_p', 0.0), ('stall_p', 0.0), ('preempt_p', 0.0)):
        if case['knobs'].get(k) != v:
            c = copy.deepcopy(case)
            c['knobs'][k] = v
            yield c
    if len(p['outside']) > 1:
        c = copy.deepcopy(case)
        c['prog']['outside'] = p['outside'][:1]
        yield c
    for key, val in (('const_binding', False), ('nodeps', False)):
        if p.get(key) != val:
            c = copy.deepcopy(case)
            c['prog'][key] = val
            yield c


def run_case(case, schedule, opts):
    simk, R, K, root = common.setup_run(case, schedule, opts, 'c05rt')
    REC = R.REC
    prog = copy.deepcopy(case['prog'])
    loops = e2.loops_of(prog)
    ks = [lp['k'] for lp in loops]
    k_target = ks if len(loops) > 1 else prog['k']
    cond_k = {}
    for lp in loops:
        bs = {n: st for (n, st, _, _, _) in e2.body_components(lp)}
        cond_k[(lp['import_stage'] + bs[e2.bn(lp, 'stop')], e2.bn(lp, 'stop'))] = lp['k']
    cond_keys = list(cond_k)
    paused = []
    default = {'dur': case.get('dur', 1.0), 'exit': 'Success', 'outs': [[0.05, 'data.txt', 'x\n']]}
    R.CTX = ctx = R.RunContext(R.Plan({}, {}))
    result = {'violations': []}
    viol = result['violations']
    launches = []

    def V(sig, detail):
        if not any(v['sig'] == sig for v in viol):
            viol.append({'property': 'C05', 'sig': sig, 'detail': detail})

    def on_launch(job, n, spec):
        ref = job.reference
        name = ref.split('.', 1)[1]
        spec.setdefault('dur', default['dur'])
        spec['outs'] = [[0.05, 'data.txt', 'x\n']]
        ckey = (int(ref.split('.', 1)[0][5:]), name.split('#', 1)[1]) if '#' in name else None
        if ckey in cond_k:
            it = int(name.split('#', 1)[0])
            poc = case.get('pause_on_condition')
            if poc and not paused and it == poc['iteration'] and ckey == cond_keys[poc['loop'] % len(cond_keys)]:
                paused.append(it)
                R.start_operator([[0.0, spec.get('dur', 1.0) + poc['extra']]], slow_wake_p=case.get('slow_wake_p') or 0.5)
            spec['outs'] = [[0.05, 'iteration.next', 'True\n' if it < cond_k[ckey] else 'False\n', 'w']]
        if ref in outside_meta:
            wg = ctx.exp.experimentGraph
            spec_c = wg.graph.nodes[ref]['componentSpecification']
            vals = []
            for d in spec_c.dataReferences:
                try:
                    vals.append(d.resolve(wg))
                except Exception as e:
                    vals.append('ERR:%s' % type(e).__name__)
            launches.append((ref, vals, ctx.controller.workflowGraph._documents))

    outside_meta = {}
    ctx.on_launch = on_launch
    stop = None
    outcomes = []
    exp = None
    try:
        main, files = e2.render_package(prog)
        for li, lp in enumerate(loops):
            for o in lp['outside']:
                o['loop'] = li
                outside_meta['stage%d.%s' % (o['stage'], o['name'])] = o
        exp = R.build_experiment(main, root, extra_files={'conf/%s' % f: t for f, t in files.items()})
        ctx.exp = exp
        controller, comps = R.new_controller(exp)
        ctx.controller = controller
        if case.get('pauses'):
            R.start_operator(case['pauses'], slow_wake_p=case.get('slow_wake_p', 0.0))
        rs = case.get('restart_stage')
        if case.get('rerun_last_stage'):
            R.run_stages(exp, controller, REC, outcomes)
            if all(o['result'] == 'ok' for o in outcomes):
                last = len(exp._stages) - 1
                inst = exp.instanceDirectory.location
                del controller, comps
                exp = e2.reload_instance(inst)
                ctx.exp = exp
                REC.count('fault.rerun_of_the_last_stage_of_a_finished_instance')
                controller, comps = R.new_controller(exp, initial_stage=last)
                ctx.controller = controller
                again = []
                R.run_stages(exp, controller, REC, again, first=last)
                for o in again:
                    o['rerun'] = True
                    outcomes.append(o)
        elif rs is None or rs <= 0 or rs >= len(exp._stages):
            R.run_stages(exp, controller, REC, outcomes)
        else:
            # crash + restart from a stage: the process dies after stage rs-1 completed; a new process loads the
            # instance directory and a new controller starts from stage rs (elaunch --restart <rs>)
            R.run_stages(exp, controller, REC, outcomes, last=rs - 1)
            if all(o['result'] == 'ok' for o in outcomes):
                inst = exp.instanceDirectory.location
                del controller, comps
                exp = e2.reload_instance(inst)
                ctx.exp = exp
                REC.count('fault.crash_and_restart_from_stage')
                controller, comps = R.new_controller(exp, initial_stage=rs)
                ctx.controller = controller
                R.run_stages(exp, controller, REC, outcomes, first=rs)
        # what the launcher does when the stage loop has returned: wait until every component's state stream has completed
        if all(o['result'] == 'ok' for o in outcomes):
            import threading
            joined = threading.Event()
            try:
                obs = ctx.controller.workflowIsComplete
                if obs is None:
                    joined.set()
                else:
                    obs.subscribe(on_completed=joined.set, on_error=lambda e: joined.set())
                if not joined.wait(600.0):
                    V('controller:completion-of-the-workflow-never-observed', {'restart_stage': case.get('restart_stage')})
            except simk.SimStop:
                raise
            except Exception as e:
                V('controller:completion-of-the-workflow-cannot-be-observed',
                  {'error': repr(e)[:300], 'restart_stage': case.get('restart_stage')})
    except simk.SimStop as e:
        stop = e.reason
    K.freeze()
    if exp is not None:
        if stop is not None:
            # liveness of the loop itself is C02's business (its open findings apply); judged here only on the prefix
            REC.count('probe.capped')
        else:
            bad = [o for o in outcomes if o['result'] != 'ok']
            if bad:
                V('controller:stage-did-not-complete', {'outcomes': [(o['stage'], o['result'], o.get('error')) for o in outcomes]})
            else:
                cnt = {}
                lv = []
                e2.judge_loop(exp, prog, k_target, lv, 'after the controller finished the loop', cnt)
                # stdout-based resolutions cannot be compared (SimTask output differs from the E2 harness files)
                for v in lv:
                    if v['sig'].startswith('resolve:') and ('output' in v['sig']):
                        continue
                    viol.append(v)
                REC.count('probe.loop_judged')
        # at every task creation of an outside consumer: loop terminated and wired to iteration k
        e_res = {}
        for lp in loops:
            e_res.update(e2.expected_resolution(exp, lp, lp['k']))
        ev = REC.events
        last_loop_exit = max([e[0] for e in ev if e[2] == 'ctlstate' and e[3] and '#' in e[3]] or [0])
        for (ref, vals, _) in launches:
            o = outside_meta[ref]
            if o['method'] in ('ref', 'loopref'):
                if vals != e_res[o['name']]:
                    V('resolve:%s-reference-at-launch-of-outside-consumer' % o['method'],
                      {'consumer': ref, 'expected': e_res[o['name']][0][-200:], 'got': (vals or ['?'])[0][-200:], 'k': k_target})
        for e in ev:
            if e[2] == 'launch' and e[3] in outside_meta:
                done = set(x[3] for x in ev if x[2] == 'ctlstate' and x[0] < e[0] and x[4]['new'] in ('finished', 'failed', 'component_shutdown'))
                lp = loops[outside_meta[e[3]].get('loop', 0)]
                expected_nodes, _, _ = e2.expected_loop(lp, lp['k'])
                loop_nodes = [n for n in expected_nodes if '#' in n]
                tgt = e2.bn(lp, outside_meta[e[3]]['target'])
                stopn = e2.bn(lp, 'stop')
                # instances of the consumed component (its replicas when it is replicated) and of the condition - by exact
                # name: a sibling called stop2 / stop10 is neither
                repl_of = {n_: r_ for (n_, _, _, r_, _) in e2.body_components(lp)}

                def is_instance_of(node, comp):
                    b = node.split('#', 1)[1]
                    if b == comp:
                        return True
                    return bool(repl_of.get(comp)) and b.startswith(comp) and b[len(comp):].isdigit()

                need = [n for n in loop_nodes if is_instance_of(n, tgt) or is_instance_of(n, stopn)]
                missing = [n for n in need if n not in done]
                if missing:
                    V('launch:outside-consumer-before-loop-terminated', {'consumer': e[3], 'not_final': missing[:5], 'k': k_target})
        if max(ks) >= 10:
            REC.count('probe.k_ge_10')
        if len(loops) > 1:
            REC.count('probe.two_documents')
        REC.count('probe.iterations', sum(ks))
    result['sample'] = {'program': prog, 'outcomes': outcomes,
                        'history': [[e[0], e[1], e[2], e[3]] for e in REC.events if e[2] in ('launch', 'exit', 'submit')][:120]}
    return common.finish_run(simk, R, K, root, result)
