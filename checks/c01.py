"""C01 - tasks start only after everything they consume from is finished (see checks/wf.py)."""
from checks import common
from checks.wf import *  # noqa: F401,F403  (BOOT, LEVEL, REAL, STUB, run_case, shrink_candidates)
from checks import wf

PROPERTY = 'C01'
TIERS = {
    'quick': {'runs': 700, 'budget_s': 150, 'shrink_runs': 150, 'opts': {'max_vtime': 6000.0, 'wall_timeout': 200}},
    'thorough': {'runs': 40000, 'budget_s': 1500, 'shrink_runs': 300, 'opts': {'max_vtime': 6000.0, 'wall_timeout': 300}},
}
RULE = ('each run = one generated multi-stage workflow (1-3 stages, up to 4 components per stage, replicas, aggregators, '
        'same-stage consumers and repeating observers, continue-on-error stages) x per-execution exit reasons, launch '
        'failures and restart-hook answers x one seeded schedule (pre-emption, stalls, optional settrace pre-emption, pool '
        'sizes). Invariants (i)-(v) are evaluated at every ComponentState.run() and every task creation. '
        'distinct_nontrivial = distinct abstract histories (order of controller callbacks with component states); '
        'a run is non-trivial when at least one consumer was submitted')
ASSUMPTIONS = common.ASSUMPTIONS_E1 + [
    'the expanded graph (replicas, aggregation) is taken from the loaded experiment; expansion itself is C03, not C01',
    'for a repeating observer the failed/shut-down-subject rules are judged at the scheduling pass that submitted it',
]


def gen_case(seed, tier, index=0):
    if index % 4 == 3:
        return wf.gen_case_observer_race(seed, tier, index)
    return wf.gen_case_dag(seed, tier, index)
