#!/usr/bin/env python3
"""Self-tests of the machinery (not a property check): determinism and sensitivity.

  python3 checks/selftest.py determinism [--n 48]   same seeds twice, at 16 and 5 workers, and under another PYTHONHASHSEED
  python3 checks/selftest.py sensitivity [--only name]  built-in mutants applied to a scratch copy of /repo/python under
                                                        /dev/shm (removed afterwards); each must be reported by its check
Results go to evidence/selftest.json. Exit 0 only if everything held.
"""
import json
import os
import shutil
import subprocess
import sys
import time

V = os.path.dirname(os.path.dirname(os.path.abspath(__file__)))
REPO = os.environ.get('VERIF_REPO', '/repo')

E1 = ['c13', 'c01', 'c02', 'c12']
OTHERS = ['c05', 'c05rt', 'c02loop', 'c07', 'c08', 'c14', 'c14rt', 'c15']

MUTANTS = [
    # (name, property, check, runs, file, old, new)
    ('c01-dead-engine-counts-as-done', 'C01', 'c01', 400, 'python/experiment/runtime/control.py',
     "        return node_name not in self.comp_done\n",
     "        if node_name in self.comp_done:\n            return False\n        try:\n            return self.get_compstate(node_name).engine.isAlive()\n        except Exception:\n            return True\n"),
    ('c01-failed-producer-branch-dropped', 'C01', 'c01', 500, 'python/experiment/runtime/control.py',
     "                    if producers_failed:\n", "                    if False and producers_failed:\n"),
    ('c01-fake-finished-subject-satisfies-observer-unfixed', 'C01', 'c01', 1200, 'python/experiment/runtime/control.py',
     "                if comp not in self.comp_staged_in or comp.finishCalled:", "                if comp not in self.comp_staged_in:"),
    ('c02-aggregator-any-replica-shutdown', 'C02', 'c02', 700, 'python/experiment/runtime/control.py',
     "elif replica_inputs and len(shutdown_replicas) == len(replica_inputs):", "elif replica_inputs and len(shutdown_replicas) > 0:"),
    ('c02-two-final-states-unfixed', 'C02', 'c02', 300, 'python/experiment/runtime/workflow.py',
     "        if self.controllerState in final_states:\n            # A component has exactly one final state",
     "        if False and self.controllerState in final_states:\n            # A component has exactly one final state"),
    ('c12-budget-off-by-one', 'C12', 'c12', 600, 'python/experiment/runtime/engine.py',
     "(self.restarts + 1 > max_restarts)", "(self.restarts > max_restarts)"),
    ('c12-resubmission-cap-off-by-one', 'C12', 'c12', 900, 'python/experiment/runtime/control.py',
     "component.engine.resubmissionAttempts() < self._max_resubmission_attempts", "component.engine.resubmissionAttempts() <= self._max_resubmission_attempts"),
    ('c12-restart-after-killed', 'C12', 'c12', 900, 'python/experiment/runtime/control.py',
     "        elif exitReason not in [experiment.model.codes.exitReasons[\"Killed\"], experiment.model.codes.exitReasons[\"Cancelled\"],",
     "        elif exitReason == experiment.model.codes.exitReasons[\"Cancelled\"]:\n            retval = component.restart(reason=experiment.model.codes.exitReasons[\"ResourceExhausted\"], code=returncode)\n        elif exitReason not in [experiment.model.codes.exitReasons[\"Killed\"], experiment.model.codes.exitReasons[\"Cancelled\"],"),
    ('c12-refused-restart-of-stage-without-final-state-unfixed', 'C12', 'c12', 900, 'python/experiment/runtime/control.py',
     "                    elif restartCode in [experiment.model.codes.restartCodes[\"RestartCouldNotInitiate\"],\n                                         experiment.model.codes.restartCodes[\"RestartMaxAttemptsExceeded\"]]:",
     "                    elif restartCode == experiment.model.codes.restartCodes[\"RestartCouldNotInitiate\"]:"),
    ('c13-flag-read-after-execution', 'C13', 'c13', 480, 'python/experiment/runtime/engine.py',
     "                if producers_done_when_i_started or self._suicide:", "                if self._producers_are_finished or self._suicide:"),
    ('c13-kill-delay-livelock-unfixed', 'C13', 'c13', 480, 'python/experiment/runtime/engine.py',
     "                if self.process is not None and self.process.isAlive():", "                if self.process is not None:"),
    ('c08-live-reference-without-invalidation', 'C08', 'c08', 64, 'python/experiment/model/frontends/flowir.py',
     "        self._cache.invalidate_reg_expression(r\"component:.*:stage%s:%s\" % (comp_id[0], re.escape(comp_id[1])))\n        return component",
     "        return component"),
    ('c08-platform-stage-variable-keeps-cache', 'C08', 'c08', 64, 'python/experiment/model/frontends/flowir.py',
     "        stage_vars[stage_index][variable] = value\n\n        self._cache.clear()", "        stage_vars[stage_index][variable] = value"),
    ('c13-refused-submission-never-stops-unfixed', 'C13', 'c13', 480, 'python/experiment/runtime/engine.py',
     "                    if did_i_execute and my_process is not None and my_process.returncode == 0 :",
     "                    if did_i_execute and my_process.returncode == 0 :"),
    ('c08-cache-returns-live-object', 'C08', 'c08', 64, 'python/experiment/model/frontends/flowir.py',
     "            return deep_copy(self._cache[reference])", "            return self._cache[reference]"),
    ('c08-unescaped-component-name-unfixed', 'C08', 'c08', 64, 'python/experiment/model/frontends/flowir.py',
     "            comp_id[0], re.escape(comp_id[1])))", "            comp_id[0], comp_id[1]))"),
    ('c08-shared-yaml-nodes-unfixed', 'C08', 'c08', 64, 'python/experiment/model/frontends/flowir.py',
     "        flowir_0 = deep_copy_unshared(flowir_0)\n", "        flowir_0 = deep_copy(flowir_0)\n"),
    ('c08-lenient-query-cached-unfixed', 'C08', 'c08', 64, 'python/experiment/model/frontends/flowir.py',
     "        use_cache = need_fully_resolved_flowir and ignore_convert_errors is False\n", "        use_cache = need_fully_resolved_flowir\n"),
    ('c15-variable-files-set-unfixed', 'C15', 'c15', 24, 'python/experiment/model/conf.py',
     "variable_files = list(dict.fromkeys(reversed(variable_files or [])))[::-1]", "variable_files = list(set(variable_files or []))"),
    ('c15-duplicate-variable-file-keeps-first-position-unfixed', 'C15', 'c15', 32, 'python/experiment/model/conf.py',
     "variable_files = list(dict.fromkeys(reversed(variable_files or [])))[::-1]", "variable_files = list(dict.fromkeys(variable_files or []))"),
    ('c05-latest-string-sort-unfixed', 'C05', 'c05', 60, 'python/experiment/model/graph.py',
     "                key=lambda c: int(c[1].split('#', 1)[0]),\n                reverse=True\n            )[0]",
     "                key=lambda c: c[1].split('#', 1)[0],\n                reverse=True\n            )[0]"),
    ('c14-status-details-rename-after-failed-write', 'C14', 'c14', 36, 'python/experiment/runtime/output.py',
     ["                            try:\n                                os.remove(tempname)\n                            except OSError:\n                                pass\n                        else:\n",
      ],
     ["                        if True:\n"]),
    ('c14-status-escapes-live-object', 'C14', 'c14', 60, 'python/experiment/model/data.py',
     "            new_data['error-description'] = new_data['error-description'].encode('unicode_escape').decode('utf-8')\n        for key in sorted(new_data):\n            stream.write(\"%s=%s\\n\" % (key, new_data[key]))",
     "            self.data['error-description'] = self.data['error-description'].encode('unicode_escape').decode('utf-8')\n        for key in sorted(new_data):\n            stream.write(\"%s=%s\\n\" % (key, self.data[key]))"),
    ('c05-condition-matched-by-name-only-unfixed', 'C05', 'c05', 100, 'python/experiment/model/graph.py',
     "[c for c in all_looped_ids if int(c[0]) == cond_stage and c[1].split('#', 1)[1] == cond_name]",
     "[c for c in all_looped_ids if c[1].split('#', 1)[1] == cond_name]"),
    ('c05-sequential-reference-rewrite-unfixed', 'C05', 'c05', 150, 'python/experiment/model/frontends/flowir.py',
     "        value = re.sub(pattern, lambda matched: rewrites[matched.group(0)], value)\n",
     "        for _m in list(rewrites):\n            value = re.sub(r'\\b' + re.escape(_m) + r'\\b', rewrites[_m].replace('\\\\', '\\\\\\\\'), value, 1)\n"),
    ('c05-foreign-components-from-replicated-description-unfixed', 'C05', 'c05', 150, 'python/experiment/model/graph.py',
     "        foreign_components = self.configuration._unreplicated.get_component_identifiers(True, False)\n",
     "        foreign_components = self._concrete.get_component_identifiers(True, False)\n"),
    ('c05-done-placeholder-skipped-before-matching-unfixed', 'C05', 'c05rt', 200, 'python/experiment/model/graph.py',
     "            remaining_looped_ids.difference_update(matched_components)\n\n            # VV: Finished/Shutdown/Failed placeholders do not need to be updated, as they're already done\n            last_state = self._placeholders.get(p_ref, {}).get('state', experiment.model.codes.RUNNING_STATE)\n",
     "            last_state = self._placeholders.get(p_ref, {}).get('state', experiment.model.codes.RUNNING_STATE)\n            if last_state == experiment.model.codes.RUNNING_STATE:\n                remaining_looped_ids.difference_update(matched_components)\n"),
    ('c07-platform-global-blueprint-below-default-stage-blueprint-unfixed', 'C07', 'c07', 200, 'python/experiment/model/frontends/flowir.py',
     "            if platform != FlowIR.LabelDefault:\n                global_stage_blueprint = FlowIR.override_object(\n",
     "            if False:\n                global_stage_blueprint = FlowIR.override_object(\n"),
    ('c05-only-first-occurrence-rewritten-unfixed', 'C05', 'c05', 150, 'python/experiment/model/frontends/flowir.py',
     "        value = re.sub(pattern, lambda matched: rewrites[matched.group(0)], value)\n",
     "        value = re.sub(pattern, lambda matched: rewrites[matched.group(0)], value, 1)\n"),
    ('c05-own-components-removed-from-shared-set-unfixed', 'C05', 'c05', 150, 'python/experiment/model/frontends/flowir.py',
     "                foreign_ids.remove((comp.get('stage', 0) + doc_stage, comp['name']))\n\n            dw_components, new_dw_doc",
     "                component_ids.remove((comp.get('stage', 0) + doc_stage, comp['name']))\n\n            dw_components, new_dw_doc"),
    ('c05-placeholders-missing-from-foreign-components-unfixed', 'C05', 'c05', 150, 'python/experiment/model/graph.py',
     "        foreign_components = set(foreign_components).union(FlowIR.discover_placeholder_identifiers(foreign_components))\n", ""),
    ('c07-component-order-from-a-set-unfixed', 'C07', 'c07', 100, 'python/experiment/model/frontends/flowir.py',
     "        for comp_id in sorted(comp_identifiers):\n            stage, name = comp_id", "        for comp_id in comp_identifiers:\n            stage, name = comp_id"),
    ('c14-listing-not-restored-on-restart-unfixed', 'C14', 'c14rt', 128, 'python/experiment/runtime/output.py',
     "        self._restore_recorded_status()\n", "        pass\n"),
    ('c05-location-ignores-placeholders-unfixed', 'C05', 'c05', 60, 'python/experiment/model/graph.py',
     "            if producer_identifier in workflowGraph._placeholders:\n                producer_identifier = workflowGraph._placeholders[producer_identifier]['latest']\n",
     ""),
    ('c07-platform-environment-replaces-default-unfixed', 'C07', 'c07', 200, 'python/experiment/model/frontends/flowir.py',
     "            layered = dict(environments.get(env_name) or {})\n", "            layered = {}\n"),
    ('c02-restarted-repeating-engine-dead-until-its-thread-runs-unfixed', 'C02', 'c02', 2400, 'python/experiment/runtime/engine.py',
     "            self.lastExecution = True\n\n            try:\n                threading.Thread(target=runRestart).start()",
     "            try:\n                threading.Thread(target=runRestart).start()"),
    ('c13-engine-reported-dead-while-its-monitor-is-inside-an-iteration-unfixed', 'C13', 'c13', 1500, 'python/experiment/runtime/engine.py',
     "        if self.lastExecution is False and self._iterationInProgress is False:\n", "        if self.lastExecution is False:\n"),
    ('c12-final-state-published-before-the-engine-is-told-unfixed', 'C12', 'c12', 4000, 'python/experiment/runtime/workflow.py',
     ["        if engineIsRunning is False and stopEngine:\n", "        else:\n            self.controllerState = finalState\n\n    def suspend(self):"],
     ["        if False:\n", "        else:\n            self.controllerState = finalState\n            if stopEngine:\n                self.engine.shutdown()\n\n    def suspend(self):"]),
    ('c02-finish-waits-for-the-notification-only-unfixed', 'C02', 'c02', 700, 'python/experiment/runtime/workflow.py',
     "                reactivex.interval(5.0).pipe(\n                    op.take_while(lambda _: self.controllerState not in final_states)",
     "                reactivex.empty().pipe(\n                    op.take_while(lambda _: self.controllerState not in final_states)"),
    ('c07-replicated-component-named-like-a-runtime-folder-unfixed', 'C07', 'c07', 400, 'python/experiment/model/frontends/flowir.py',
     "                if stage_idx is None and os.path.sep not in producer and (c_id[0], producer) in replicate_instructions:\n",
     "                if False:\n"),
    ('c14-instance-description-written-in-place', 'C14', 'c14rt', 192, 'python/experiment/model/conf.py',
     "        temp_file = '%s.%s.tmp' % (instance_file, uuid.uuid4())\n", "        temp_file = instance_file\n"),
    ('c14-status-written-in-place', 'C14', 'c14rt', 192, 'python/experiment/model/data.py',
     "        tempname = os.path.join(self.outputDir, tempname)\n", "        tempname = self.outputFile\n"),
    ('c14-output-listing-written-in-place', 'C14', 'c14rt', 384, 'python/experiment/runtime/output.py',
     "            tempname = os.path.join(self.outputDir.path, tempname)\n", "            tempname = os.path.join(self.outputDir.path, 'output.txt')\n"),
]


def run(cmd, env=None, timeout=1800):
    e = dict(os.environ)
    if env:
        e.update(env)
    p = subprocess.run(cmd, cwd=V, env=e, stdout=subprocess.PIPE, stderr=subprocess.STDOUT, text=True, timeout=timeout)
    return p.returncode, p.stdout


def determinism(n):
    out = {}
    ok = True
    tmp = os.path.join(V, 'scratch')
    os.makedirs(tmp, exist_ok=True)
    for chk in E1 + OTHERS:
        runs = n if chk in E1 else max(6, n // 6)
        files = []
        for tag, workers, env in (('a', 16, {}), ('b', 5, {}), ('c', 16, {'VERIF_HASHSEED': '12345'}),
                                  ('d', 7, {'VERIF_HASHSEED': '12345'})):
            f = os.path.join(tmp, 'det-%s-%s.json' % (chk, tag))
            rc, o = run(['./run', chk, '--runs', str(runs), '--workers', str(workers), '--no-evidence', '--survey',
                         '--digests', f], env=env)
            files.append(f)
            if rc != 0:
                ok = False
                out[chk] = {'error': o[-1500:]}
        if chk in out:
            continue
        ds = [json.load(open(f)) for f in files]
        # the workers' hash seed is an input that the checks pin (0): a run is a function of (case, hash seed).
        # Exactness is required for equal hash seeds across separately started drivers and worker counts; how many runs
        # take a different schedule under another hash seed is reported for information (hash-ordered containers in
        # the repository make the thread creation order depend on it)
        mism = [k for k in ds[0] if ds[1].get(k) != ds[0][k]] + [k for k in ds[2] if ds[3].get(k) != ds[2][k]]
        out[chk] = {'runs': len(ds[0]), 'mismatching_runs': mism[:10],
                    'configurations': ['16 workers == 5 workers (PYTHONHASHSEED=0)', '16 workers == 7 workers (PYTHONHASHSEED=12345)'],
                    'runs_whose_digest_depends_on_the_hash_seed': len([k for k in ds[0] if ds[2].get(k) != ds[0][k]])}
        if mism:
            ok = False
        print('determinism %-4s runs=%d mismatches=%d' % (chk, len(ds[0]), len(mism)), flush=True)
    return ok, out


def sensitivity(only=None):
    out = {}
    ok = True
    for (name, prop, chk, runs, rel, old, new) in MUTANTS:
        if only and only not in name:
            continue
        root = '/dev/shm/verif-mut-%s' % name
        shutil.rmtree(root, ignore_errors=True)
        os.makedirs(root)
        try:
            shutil.copytree(os.path.join(REPO, 'python'), os.path.join(root, 'python'), ignore=shutil.ignore_patterns('__pycache__'))
            p = os.path.join(root, rel)
            s = open(p).read()
            pairs = list(zip(old, new)) if isinstance(old, (list, tuple)) else [(old, new)]
            missing = [o for (o, n) in pairs if s.count(o) < 1]
            if missing:
                out[name] = {'error': 'anchor text not found: %r' % missing[0][:80]}
                ok = False
                print('sensitivity %-45s ANCHOR-MISSING' % name, flush=True)
                continue
            for (o, n) in pairs:
                s = s.replace(o, n)
            open(p, 'w').write(s)
            t0 = time.time()
            rc, o = run(['./run', chk, '--runs', str(runs), '--no-evidence', '--no-shrink'], env={'VERIF_REPO': root})
            # rc 2 = the mutant also drove some run into a wall timeout (a busy loop in mutated code): the violation
            # line is what counts
            caught = rc in (1, 2) and ('VIOLATION property=%s' % prop) in o
            sigs = sorted(set(l.split('sig=')[1].split(' ')[0] for l in o.splitlines() if l.startswith('violation sig=')))
            out[name] = {'property': prop, 'check': chk, 'caught': caught, 'rc': rc, 'signatures': sigs[:6],
                         'wall_s': round(time.time() - t0, 1), 'tail': o.splitlines()[-1][:200] if o else ''}
            if not caught:
                ok = False
            print('sensitivity %-45s %s (%.0fs) %s' % (name, 'CAUGHT' if caught else 'MISSED rc=%d' % rc, time.time() - t0, sigs[:2]), flush=True)
        finally:
            shutil.rmtree(root, ignore_errors=True)
    return ok, out


def fidelity():
    """the repository's own simulator backend under the same kernel and probes: workflow finishes, C01 invariants hold"""
    rc, o = run(['./run', 'xsim', '--runs', '96', '--no-evidence'])
    ok = rc == 0
    print('fidelity  xsim (repository SimulatorTask under the kernel): %s' % ('OK' if ok else 'FAILED rc=%d' % rc), flush=True)
    return ok, {'rc': rc, 'tail': o.splitlines()[-1][:200] if o else ''}


def main():
    mode = sys.argv[1] if len(sys.argv) > 1 else 'all'
    n = 48
    only = None
    if '--n' in sys.argv:
        n = int(sys.argv[sys.argv.index('--n') + 1])
    if '--only' in sys.argv:
        only = sys.argv[sys.argv.index('--only') + 1]
    path = os.path.join(V, 'evidence', 'selftest.json')
    res = {}
    if os.path.exists(path):
        try:
            res = json.load(open(path))
        except Exception:
            res = {}
    ok = True
    if mode in ('determinism', 'all'):
        o, res['determinism'] = determinism(n)
        ok = ok and o
    if mode in ('fidelity', 'all'):
        o, res['fidelity'] = fidelity()
        ok = ok and o
    if mode in ('sensitivity', 'all'):
        o, r = sensitivity(only)
        res.setdefault('sensitivity', {}).update(r)
        ok = ok and o
    res['at'] = time.strftime('%Y-%m-%dT%H:%M:%SZ', time.gmtime())
    os.makedirs(os.path.dirname(path), exist_ok=True)
    with open(path, 'w') as f:
        json.dump(res, f, indent=1, sort_keys=True)
    print('selftest %s' % ('OK' if ok else 'FAILED'))
    return 0 if ok else 1


if __name__ == '__main__':
    sys.exit(main())
