"""C02 with DoWhile loops (E1): generated DoWhile packages (one or two documents) run under the simulated Controller with
task failures inside the loop body: unrecoverable exits, restartable exits followed by success, failing condition tasks,
at a seeded iteration. Judged with the clauses of C02 that need no loop-specific rule: the stage loop terminates, every
component (loop instances created on the way included) ends in exactly one final state that stays put, without an
unrecoverable exit nothing fails and the loop runs its k iterations, with one some component is failed and its stage is
reported failed."""
import copy
import random

from checks import common, e2, wf

PROPERTY = 'C02'
LEVEL = 'exploration'
BOOT = {'kernel': True}
TIERS = {
    'quick': {'runs': 128, 'budget_s': 70, 'shrink_runs': 60, 'opts': {'max_vtime': 6000.0, 'wall_timeout': 200}},
    'thorough': {'runs': 6000, 'budget_s': 1200, 'shrink_runs': 120, 'opts': {'max_vtime': 6000.0, 'wall_timeout': 300}},
}
RULE = ('loops: each run = one generated DoWhile package (one or two documents, k in {0..3} iterations decided by the scripted '
        'condition task) under the real Controller on the kernel, with a seeded fault in the loop body (unrecoverable exit, '
        'restartable exit then success, restart budget used up, failing or killed condition task, failed submission) at a seeded '
        'iteration. Oracle: termination within the virtual-time cap, exactly one stable final state per component including '
        'the instances created while running, no failure and exactly k iterations when every execution history ends in '
        'Success, a failed component and a failed stage when one ends unrecoverably')
REAL = common.REAL_E1 + ['Controller._handle_condition_component_finished / _instantiate_next_dowhile_iteration under task failures']
STUB = common.STUB_E1
ASSUMPTIONS = common.ASSUMPTIONS_E1 + ['which state consumers of a failed loop receive is not judged (only: final, stable, single)']

UNRECOVERABLE = ['KnownIssue', 'UnknownIssue', 'SystemIssue']


def gen_case(seed, tier, index=0):
    rr = random.Random(seed)
    prog = e2.gen_loop_program(rr)
    prog['k'] = rr.choice([0, 1, 2, 3])
    prog['reloads'] = []
    prog['uservars'] = False
    if rr.random() < 0.25:
        e2.add_second_loop(rr, prog)
        prog['second']['k'] = rr.choice([0, 1, 2, 3])
        prog['reloads'] = []
    loops = e2.loops_of(prog)
    plan = {}
    nfaults = rr.choice([0, 1, 1, 1, 2])
    for _ in range(nfaults):
        lp = rr.choice(loops)
        body = e2.body_components(lp)
        (name, st, refs, repl, agg) = rr.choice(body)
        it = rr.randint(0, lp['k'])
        inst = '%d#%s%s' % (it, name, rr.randrange(repl) if repl else '')
        kind = rr.choice(['unrecoverable', 'unrecoverable', 'restart-then-success', 'budget-used-up', 'killed',
                          'submission-failed-once', 'submission-always-fails'])
        dur = rr.choice([0.3, 2.0, 8.0])
        if kind == 'unrecoverable':
            execs = [{'dur': dur, 'exit': rr.choice(UNRECOVERABLE)}]
        elif kind == 'restart-then-success':
            execs = [{'dur': dur, 'exit': 'ResourceExhausted'}] * rr.choice([1, 2, 3])
        elif kind == 'budget-used-up':
            execs = [{'dur': dur, 'exit': 'ResourceExhausted'}] * 6
        elif kind == 'killed':
            execs = [{'dur': dur, 'exit': rr.choice(['Killed', 'Cancelled'])}]
        elif kind == 'submission-failed-once':
            execs = [{'dur': dur, 'exit': 'Success', 'launch_fail': 'joblaunch'}]
        else:
            execs = [{'dur': dur, 'exit': 'Success', 'launch_fail': 'joblaunch'}] * 8
        plan[inst] = {'execs': execs, 'kind': kind}
    if rr.random() < 0.3:
        # a component of a later stage that starts early and exits unrecoverably while the loop is iterating: the
        # controller then stops everything (kill_all_components)
        prog['bomb'] = {'after': rr.random() < 0.5}
        plan['Bomb'] = {'execs': [{'dur': rr.choice([0.5, 2.0, 4.0, 7.0, 12.0, 20.0]), 'exit': rr.choice(UNRECOVERABLE)}],
                        'kind': 'future-stage-component-fails'}
    knobs = common.knobs_from(rr, tier)
    knobs['launch_delay'] = rr.choice([0.0, 0.0, 5.0])
    return {'prog': prog, 'knobs': knobs, 'plan': plan, 'dur': rr.choice([0.3, 1.0, 3.0]), 'sched_seed': rr.getrandbits(48),
            'pauses': common.gen_pauses(rr, 0.15), 'slow_wake_p': rr.choice([0.0, 0.3])}


def shrink_candidates(case):
    if case.get('pauses'):
        c = copy.deepcopy(case)
        c['pauses'] = []
        yield c
    if case.get('pause_on_condition'):
        c = copy.deepcopy(case)
        c['pause_on_condition'] = None
        yield c
    p = case['prog']
    if p.get('second'):
        c = copy.deepcopy(case)
        del c['prog']['second']
        c['prog'].pop('order', None)
        yield c
    for name in list(case['plan']):
        if len(case['plan']) > 1:
            c = copy.deepcopy(case)
            del c['plan'][name]
            yield c
    for which in ('first', 'second'):
        lp = p if which == 'first' else p.get('second')
        if not lp:
            continue
        used = max([int(n.split('#')[0]) for n in case['plan'] if '#' in n] or [0])
        for k in (0, 1, lp['k'] - 1):
            if used <= k < lp['k']:
                c = copy.deepcopy(case)
                (c['prog'] if which == 'first' else c['prog']['second'])['k'] = k
                yield c
    for k, v in (('trace', 'none'), ('pool_delay_p', 0.0), ('stall_p', 0.0), ('preempt_p', 0.0), ('launch_delay', 0.0)):
        if case['knobs'].get(k) != v:
            c = copy.deepcopy(case)
            c['knobs'][k] = v
            yield c
    if len(p['outside']) > 1:
        for i in range(len(p['outside'])):
            c = copy.deepcopy(case)
            c['prog']['outside'] = [p['outside'][i]]
            yield c
    for key, val in (('const_binding', False), ('nodeps', False)):
        if p.get(key) != val:
            c = copy.deepcopy(case)
            c['prog'][key] = val
            yield c


def run_case(case, schedule, opts):
    simk, R, K, root = common.setup_run(case, schedule, opts, 'c02loop')
    REC = R.REC
    prog = copy.deepcopy(case['prog'])
    loops = e2.loops_of(prog)
    cond_k = {}
    for lp in loops:
        bs = {n: st for (n, st, _, _, _) in e2.body_components(lp)}
        cond_k[(lp['import_stage'] + bs[e2.bn(lp, 'stop')], e2.bn(lp, 'stop'))] = lp['k']
    plan = {k: {'execs': v['execs']} for k, v in case['plan'].items()}
    R.CTX = ctx = R.RunContext(R.Plan(plan, {}))
    result = {'violations': []}
    viol = result['violations']

    def V(sig, detail):
        if not any(v['sig'] == sig for v in viol):
            viol.append({'property': 'C02', 'sig': sig, 'detail': detail})

    def on_launch(job, n, spec):
        ref = job.reference
        name = ref.split('.', 1)[1]
        if name not in plan or n > len(plan[name]['execs']):
            spec['dur'] = case.get('dur', 1.0)
        outs = [[0.05, 'data.txt', 'x\n']]
        ckey = (int(ref.split('.', 1)[0][5:]), name.split('#', 1)[1]) if '#' in name else None
        if ckey in cond_k:
            it = int(name.split('#', 1)[0])
            outs = [[0.05, 'iteration.next', 'True\n' if it < cond_k[ckey] else 'False\n', 'w']]
        spec['outs'] = outs

    ctx.on_launch = on_launch
    stop = None
    outcomes = []
    exp = None
    controller = None
    states_end = states_settled = {}
    try:
        main, files = e2.render_package(prog)
        exp = R.build_experiment(main, root, extra_files={'conf/%s' % f: t for f, t in files.items()})
        ctx.exp = exp
        controller, comps = R.new_controller(exp)
        ctx.controller = controller
        if case.get('pauses'):
            R.start_operator(case['pauses'], slow_wake_p=case.get('slow_wake_p', 0.0))
        try:
            R.run_stages(exp, controller, REC, outcomes)
            states_end = R.states_of(controller)
            simk.sim_sleep(60.0)
            states_settled = R.states_of(controller)
        except simk.SimStop as e:
            stop = e.reason
            K.freeze()
            states_end = states_settled = R.states_of(controller)
    except simk.SimStop as e:
        stop = e.reason
    K.freeze()
    ev = REC.events
    if controller is not None:
        nodes = wf.node_table(controller)
        hist = wf.history_of(ev)
        FINAL = wf.FINAL
        stages_run = set(o['stage'] for o in outcomes)
        if stop is not None:
            stages_run = stages_run | {len(outcomes)}
            stuck = {n: s for n, s in states_end.items() if s not in FINAL and nodes[n]['stage'] in stages_run}
            shape = wf.classify_hang(nodes, ev, stuck)
            if not stuck:
                observed = set(e[3] for e in ev if e[2] == 'finishedCheck')
                unobserved = sorted(n for n in nodes if nodes[n]['stage'] in stages_run and n not in observed
                                    and states_end.get(n) in FINAL)
                shape = 'loop:every-component-final-but-stage-loop-does-not-return' + (':final-state-never-observed' if unobserved else '')
            V('termination:%s' % shape, {'stop': stop, 'stuck': stuck, 'plan': case['plan'],
                                         'iterations': sorted(n for n in nodes if '#' in n)[-6:]})
        else:
            for n, nd in nodes.items():
                if nd['stage'] not in stages_run:
                    continue
                s1, s2 = states_end.get(n), states_settled.get(n)
                if s1 not in FINAL:
                    V('state:not-final-after-stage', {'component': n, 'state': s1})
                elif s1 != s2:
                    V('state:changed-after-stage', {'component': n, 'from': s1, 'to': s2})
            finals = {}
            for e in ev:
                if e[2] == 'ctlstate' and e[4]['new'] in FINAL:
                    finals.setdefault(e[3], []).append(e[4]['new'])
            for n, lst in finals.items():
                if len(set(lst)) > 1:
                    V('state:two-final-states', {'component': n, 'states': lst})
            # effective exits
            last = {n: (h[-1]['reason'] if h else None) for n, h in hist.items()}
            ext = wf.externally_stopped(ev)
            bad_exit = sorted(n for n, r in last.items() if r not in ('Success', None) and n not in ext)
            if not bad_exit and not ext:
                # every execution history ends in Success: nothing fails, every stage completes, k iterations each
                failed = sorted(n for n, s in states_settled.items() if s == 'failed')
                if failed:
                    V('rules:failed-component-although-every-history-ends-in-success', {'failed': failed, 'plan': case['plan']})
                badst = [(o['stage'], o['result']) for o in outcomes if o['result'] != 'ok']
                if badst:
                    V('rules:stage-not-completed-although-every-history-ends-in-success', {'outcomes': badst, 'plan': case['plan']})
                if not failed and not badst:
                    for lp in loops:
                        e_nodes, _, _ = e2.expected_loop(lp, lp['k'])
                        e_looped = {n for n in e_nodes if '#' in n}
                        st_range = range(lp['import_stage'], lp['import_stage'] + e2.span_of(lp) + 1)
                        names = set(n for (n, _, _, _, _) in e2.body_components(lp))
                        got = {n for n in nodes if '#' in n and nodes[n]['stage'] in st_range
                               and wf_base(n.split('#', 1)[1], names)}
                        if got != e_looped:
                            V('rules:loop-did-not-run-its-iterations', {'document': lp['name'], 'k': lp['k'],
                                                                         'missing': sorted(e_looped - got)[:5],
                                                                         'extra': sorted(got - e_looped)[:5]})
                    REC.count('probe.clean_run_judged')
            elif bad_exit:
                # unrecoverable (last execution failed and the component was not stopped from outside)
                culprits = [n for n in bad_exit if last[n] not in nodes[n]['shutdownOn']]
                if culprits:
                    REC.count('probe.unrecoverable_exit_inside_loop')
                    failed = sorted(n for n, s in states_settled.items() if s == 'failed')
                    if not failed:
                        V('rules:unrecoverable-exit-but-no-failed-component', {'culprits': culprits, 'last_exit': {n: last[n] for n in culprits},
                                                                                'states': {n: states_settled.get(n) for n in culprits}})
                    else:
                        fs = set(nodes[n]['stage'] for n in failed)
                        reported = set(o['stage'] for o in outcomes if o['result'] in ('jobfail', 'noleaf') or o.get('stage_state') == 'failed')
                        if not (fs & reported):
                            V('rules:failed-component-but-stage-not-reported-failed', {'failed': failed, 'outcomes': [(o['stage'], o['result'], o.get('stage_state')) for o in outcomes]})
            REC.count('probe.loop_runs_judged')
        for k_, v_ in case['plan'].items():
            REC.count('fault.plan.%s' % v_.get('kind'))
        if len(loops) > 1:
            REC.count('probe.two_documents')
        REC.note_abstract(tuple(sorted((n, states_settled.get(n)) for n in nodes)))
    result['sample'] = {'program': prog, 'plan': case['plan'], 'outcomes': [(o['stage'], o['result']) for o in outcomes],
                        'final_states': states_settled,
                        'history': [[e[0], e[1], e[2], e[3]] for e in ev if e[2] in ('launch', 'exit', 'submit', 'finish', 'restart', 'launch-fail', 'stage-end')][:160]}
    return common.finish_run(simk, R, K, root, result)


def wf_base(name, names):
    """does <name> (possibly with a replica index) belong to this loop body"""
    return name in names or name.rstrip('0123456789') in names
