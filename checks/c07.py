"""C07 - an instance reloaded from its own files is the same experiment (E2, see checks/e2.py)."""
import copy
import hashlib
import json
import os
import random
import shutil

from checks import e2
from checks.e2 import BOOT, LEVEL, REAL, STUB  # noqa: F401

PROPERTY = 'C07'
TIERS = {
    'quick': {'runs': 200, 'budget_s': 130, 'shrink_runs': 60, 'opts': {'wall_timeout': 200}},
    'thorough': {'runs': 10000, 'budget_s': 1500, 'shrink_runs': 120, 'opts': {'wall_timeout': 300}},
}
RULE = ('each evaluation = one history on a generated package: (a) DoWhile packages as in C05 with 1-3 crash+reload points '
        'between iterations, or (b) FlowIR packages with platforms, global/stage/platform variables, user variable files, '
        'replication+aggregation and environments, created with seeded creation options '
        '(platform, 0-4 user variable files) and reloaded for 1-4 load/store cycles. Oracle at every '
        'reload: component set, per-node resolved configuration, data references, graph edges, user variables, platform, '
        'loop state and placeholders equal between the writer (snapshot taken right after the store it is compared with, '
        'after validateExperiment()) and the reloaded experiment; the parsed stored description is a fixpoint of load+store. '
        'distinct_nontrivial = number of judged reloads of distinct histories')
ASSUMPTIONS = ['writer and reloaded experiment are compared in the same lifecycle state (both after validateExperiment())',
               'only edits that are meant to be stored are made before a reload (creation options, user variables, platform, '
               'loop iterations, edits followed by store_unreplicated_flowir_to_disk)',
               'launch-environment values, the order of component entries in the stored YAML and stale edges from conditions of '
               'finished iterations in the live graph are not part of "the same experiment"']


def gen_case(seed, tier, index=0):
    rr = random.Random(seed)
    if index % 2 == 0:
        prog = e2.gen_loop_program(rr)
        prog['k'] = rr.choice([1, 2, 3, 5, 10, 12])
        n = rr.choice([1, 2, 3])
        prog['reloads'] = sorted(rr.sample(range(0, prog['k'] + 1), min(n, prog['k'] + 1)))
        cycles = rr.choice([1, 1, 2, 4])
        if rr.random() < 0.3:
            # two DoWhile documents, iterated in a seeded interleaving; reloads at positions of that interleaving
            prog['k'] = rr.choice([1, 2, 3, 10])
            e2.add_second_loop(rr, prog)
            total = len(prog['order'])
            prog['reloads'] = sorted(rr.sample(range(0, total + 1), min(n, total + 1)))
        return {'kind': 'loop', 'prog': prog, 'cycles': cycles}
    from checks import c15
    pkg = c15.gen_dsl_package(rr, 0) if rr.random() < 0.25 else c15.gen_flowir_package(rr, 0)
    ops = []
    # (an in-memory edit of the replicated description is not stored by any public call, so the only stored
    # mutations of a package without loops are its creation options: platform, user variable files)
    ops.append({'op': 'reload', 'cycles': rr.choice([1, 1, 2, 4])})
    if pkg.get('platform') and rr.random() < 0.5:
        # the instance is opened again without naming the platform (as the inspection tools do): the stored description
        # is flattened for the platform it was created with, so everything but the platform's *name* must be the same
        ops[-1]['reload_platform'] = 'unnamed'
    return {'kind': 'plain', 'pkg': pkg, 'ops': ops}


def shrink_candidates(case):
    if case['kind'] == 'loop' and case['prog'].get('second'):
        p = case['prog']
        for li in (0, 1):
            n = p['order'].count(li)
            if n > 1:
                c = copy.deepcopy(case)
                idx = len(p['order']) - 1 - p['order'][::-1].index(li)
                del c['prog']['order'][idx]
                (c['prog'] if li == 0 else c['prog']['second'])['k'] = n - 1
                c['prog']['reloads'] = sorted(set(min(r, len(c['prog']['order'])) for r in p['reloads']))
                yield c
        if case.get('cycles', 1) > 1:
            c = copy.deepcopy(case)
            c['cycles'] = 1
            yield c
        return
    if case['kind'] == 'loop':
        p = case['prog']
        if p['k'] > 1:
            c = copy.deepcopy(case)
            c['prog']['k'] = p['k'] - 1
            c['prog']['reloads'] = [r for r in p['reloads'] if r <= p['k'] - 1] or [p['k'] - 1]
            yield c
        if case.get('cycles', 1) > 1:
            c = copy.deepcopy(case)
            c['cycles'] = 1
            yield c
        for key, val in (('const_binding', False), ('nodeps', False), ('uservars', False)):
            if p.get(key) != val:
                c = copy.deepcopy(case)
                c['prog'][key] = val
                yield c
        if len(p['outside']) > 1:
            c = copy.deepcopy(case)
            c['prog']['outside'] = p['outside'][:1]
            yield c
    else:
        ops = case['ops']
        for i in range(len(ops) - 1):
            c = copy.deepcopy(case)
            del c['ops'][i]
            yield c
        if case['pkg']['variable_files']:
            c = copy.deepcopy(case)
            c['pkg']['variable_files'] = case['pkg']['variable_files'][:-1]
            yield c
        comps = case['pkg']['doc']['components']
        if len(comps) > 1:
            c = copy.deepcopy(case)
            last = c['pkg']['doc']['components'].pop()
            ref = 'stage%d.%s' % (last['stage'], last['name'])
            c['ops'] = [o for o in c['ops'] if o.get('node') != ref]
            yield c


def run_plain(case, root, viol, cnt):
    from checks import c15
    from sim import runtime as R
    import experiment.model.storage as S
    import experiment.model.data as D
    pkg = case['pkg']
    path, vpaths = c15.materialise(pkg, root, None)
    import experiment.model.errors as E
    try:
        ep = S.ExperimentPackage.packageFromLocation(path, platform=pkg.get('platform'))
        exp = D.Experiment.experimentFromPackage(ep, location=root, variable_files=list(vpaths) or None,
                                                platform=pkg.get('platform'))
        exp.validateExperiment(checkExecutables=True)
        # the first store is the one that turns the package (as configured for the selected platform) into the instance
        # description: the environments the components name must be the same on both sides
        try:
            pconc = ep.configuration.get_flowir_concrete(return_copy=False)
            iconc = exp.experimentGraph.configuration.get_flowir_concrete(return_copy=False)
            names = set()
            for cid in pconc.get_component_identifiers(False):
                try:
                    nm = (pconc.get_component_configuration(cid, raw=True).get('command') or {}).get('environment')
                except Exception:
                    nm = None
                if nm and str(nm).lower() not in ('none', 'environment'):
                    names.add(nm)
            for nm in sorted(names):
                a = pconc.get_environment(nm)
                b = iconc.get_environment(nm)
                cnt['probe.package_vs_instance_environments'] = cnt.get('probe.package_vs_instance_environments', 0) + 1
                # (values that use %(variables)s are stored resolved: only their presence is compared)
                differs = set(a) != set(b) or any(a[k] != b[k] for k in a if '%(' not in str(a[k]))
                if differs:
                    viol.append({'property': 'C07', 'sig': 'store:environment-of-the-instance-differs-from-the-package',
                                 'detail': {'environment': nm, 'platform': pkg.get('platform'), 'package': a, 'instance': b}})
                    return
        except (E.FlowIREnvironmentUnknown, E.FlowIRPlatformUnknown):
            pass
        # ... and so must the command line of every component: the package as parametrised by the same platform and user
        # variable files (configuration level, nothing stored) versus the instance it was turned into
        try:
            import experiment.model.conf as C
            cf = C.ExperimentConfigurationFactory.configurationForExperiment(
                path, platform=pkg.get('platform'), createInstanceFiles=False, primitive=True,
                variable_files=list(vpaths), updateInstanceFiles=False)
            cconc = cf.get_flowir_concrete(return_copy=False)  # the description as written, variables bound late
            iconc = exp.experimentGraph.configuration.get_flowir_concrete(return_copy=False)
            for cid in sorted(cconc.get_component_identifiers(recompute=True)):
                try:
                    a = cconc.get_component_configuration(cid, raw=False, include_default=True)['command'].get('arguments')
                    b = iconc.get_component_configuration(cid, raw=False, include_default=True)['command'].get('arguments')
                except Exception:
                    continue
                cnt['probe.package_vs_instance_command_lines'] = cnt.get('probe.package_vs_instance_command_lines', 0) + 1
                if a != b and '/' not in str(a) + str(b):  # (references resolve to instance paths: not compared here)
                    derived = 'UV[' in str(a) and any(t.endswith('-two') for t in (str(a) + ' ' + str(b)).split())
                    viol.append({'property': 'C07',
                                 'sig': 'store:command-line-of-the-instance-differs-from-the-package%s' % (
                                     '[global-derived-from-an-overridden-variable]' if derived else ''),
                                 'detail': {'component': list(cid), 'platform': pkg.get('platform'), 'package': a, 'instance': b,
                                            'variable_files': pkg.get('variable_files')}})
                    return
        except (E.ExperimentInvalidConfigurationError, E.FlowIRConfigurationErrors):
            pass
        # ... and so must the dataflow: the edges of the package's graph versus those of the instance's
        try:
            import experiment.model.graph as G
            pg = G.WorkflowGraph.graphFromPackage(ep, platform=pkg.get('platform'), primitive=False,
                                                  variable_files=list(vpaths), createInstanceConfiguration=False)
            pe = set(pg.graph.edges())
            ie = set(exp.experimentGraph.graph.edges())
            cnt['probe.package_vs_instance_edges'] = cnt.get('probe.package_vs_instance_edges', 0) + 1
            if pe != ie:
                viol.append({'property': 'C07', 'sig': 'store:edges-of-the-instance-differ-from-the-package',
                             'detail': {'only_in_package': sorted(pe - ie)[:6], 'only_in_instance': sorted(ie - pe)[:6]}})
                return
        except (E.ExperimentInvalidConfigurationError, E.FlowIRConfigurationErrors):
            pass
    except (E.ExperimentInvalidConfigurationError, E.FlowIRConfigurationErrors, E.UnusedDataReferenceError,
            E.UndeclaredDataReferenceError) as e:
        # the loader or the validation rejects the generated package (the textual replica rewrite and the textual
        # resolution of references in a command line garble references whose producer names contain one another, e.g.
        # proc:ref inside subproc:ref - C03 / C10's business): nothing usable was stored, nothing to reload
        cnt['probe.package_rejected_by_loader'] = cnt.get('probe.package_rejected_by_loader', 0) + 1
        return
    inst = exp.instanceDirectory.location
    for oi, op in enumerate(case['ops']):
        if op['op'] == 'patch':
            try:
                exp.experimentGraph.setOptionForNode(op['node'], op['key'], op['value'])
                exp.experimentGraph.configuration.store_unreplicated_flowir_to_disk()
                cnt['op.patch_and_store'] = cnt.get('op.patch_and_store', 0) + 1
            except Exception as e:
                cnt['op_raised.patch'] = cnt.get('op_raised.patch', 0) + 1
        else:
            try:
                exp.validateExperiment(checkExecutables=True)
            except Exception:
                cnt['probe.writer_invalid_after_patch'] = cnt.get('probe.writer_invalid_after_patch', 0) + 1
                return
            for c in range(op['cycles']):
                before = e2.snapshot_experiment(exp)
                bb = e2.conf_bytes(exp)
                del exp
                unnamed = op.get('reload_platform') == 'unnamed'
                exp = e2.reload_instance(inst, platform=None if unnamed else pkg.get('platform'))
                cnt['fault.crash_and_reload'] = cnt.get('fault.crash_and_reload', 0) + 1
                if unnamed:
                    # platform-scoped variable tables are relative to the platform's name; their effect is in the
                    # resolved configuration of every node, which is compared
                    cnt['probe.reloaded_without_naming_the_platform'] = cnt.get('probe.reloaded_without_naming_the_platform', 0) + 1
                e2.judge_reload(before, bb, exp, viol, 'op %d cycle %d%s' % (oi, c + 1, ' (platform not named)' if unnamed else ''),
                                cnt, ignore=('platform', 'global_vars', 'vars') if unnamed else (),
                                tag='[platform-not-named]' if unnamed else '')
                if viol:
                    return


def run_case(case, schedule, opts):
    key = hashlib.sha256(json.dumps(case, sort_keys=True).encode()).hexdigest()[:12]
    root = '/dev/shm/verif-e2-%s' % key
    shutil.rmtree(root, ignore_errors=True)
    os.makedirs(root)
    result = {'violations': [], 'counters': {}}
    try:
        if case['kind'] == 'loop':
            e2.run_loop_history(copy.deepcopy(case['prog']), root, result['violations'], result['counters'],
                                fixpoint_cycles=case.get('cycles', 1))
        else:
            run_plain(case, root, result['violations'], result['counters'])
    finally:
        from sim import runtime as R
        R.cleanup_root(root)
        import glob
        for d in glob.glob('/tmp/chpc-*-shadow/pkg0-*'):
            pass
    result['digest'] = result['abstract'] = key
    result['distinct_units'] = result['counters'].get('probe.reloads_judged', 0)
    result['sample'] = {'kind': case['kind'], 'program': case.get('prog') or case.get('pkg', {}).get('doc'),
                        'ops': case.get('ops'), 'variable_files': case.get('pkg', {}).get('variable_files')}
    return result
