"""E2 - history + restart simulation for C05 (DoWhile unrolling) and C07 (reload of an instance).

A history = generated package (optionally with a DoWhile document) + k x instantiate_dowhile_next_iteration(...,
store_flowir_to_disk=True) through the real WorkflowGraph, interleaved at seeded points with "crash + restart": every
in-memory object is dropped and the instance directory is loaded again (only durable state survives), after which the
history continues on the reloaded graph.
"""
import copy
import json
import os
import random
import re
import shutil

BOOT = {'kernel': False}
LEVEL = 'exploration'
REAL = ['ExperimentPackage / Experiment.experimentFromPackage / Experiment.experimentFromInstance',
        'WorkflowGraph.instantiate_dowhile_next_iteration, _discover_dowhile_placeholders, compute_dowhile_state',
        'frontends.flowir.instantiate_dowhile / rewrite_components / package_document_load(is_instance=True)',
        'DataReference.resolve (incl. :loopref / :loopoutput)', 'FlowIRExperimentConfiguration.store_unreplicated_flowir_to_disk',
        'real instance directory on /dev/shm']
STUB = ['no task runs: the harness plays the controller\'s part of an iteration (working directories, stdout files) itself',
        'crash + restart = drop all objects, Experiment.experimentFromInstance(directory)']


# ---------------------------------------------------------------------------------------------------
def gen_loop_program(rr):
    S = rr.choice([0, 1, 1, 2])
    template = rr.choice(['chain', 'mid', 'replicated', 'mid-offset'])
    method = rr.choice(['ref', 'output'])
    prog = {'kind': 'loop', 'import_stage': S, 'template': template, 'method': method,
            'repl': rr.choice([2, 3]) if template == 'replicated' else None,
            'const_binding': rr.random() < 0.4, 'nodeps': rr.random() < 0.3,
            'outside': [], 'k': rr.choice([1, 2, 3, 9, 10, 11, 12, 20, 25]),
            'name': rr.choice(['loop', 'simple-do-while', 'dw']),
            'uservars': rr.random() < 0.3}
    carried = {'chain': 'work', 'mid': rr.choice(['work', 'mid']), 'replicated': 'agg', 'mid-offset': 'mid'}[template]
    prog['carried_from'] = carried
    targets = {'chain': ['work', 'stop'], 'mid': ['work', 'mid', 'stop'], 'replicated': ['agg', 'stop'],
               'mid-offset': ['work', 'mid', 'stop']}[template]
    for i in range(rr.choice([1, 2, 3])):
        kind = rr.choice(['ref', 'ref', 'loopref', 'loopoutput', 'output'])
        prog['outside'].append({'name': 'out%d' % i, 'target': rr.choice(targets), 'method': kind})
    nrel = rr.choice([0, 0, 1, 2, 3])
    prog['reloads'] = sorted(rr.sample(range(0, prog['k'] + 1), min(nrel, prog['k'] + 1)))
    # the replica count of a replicated body may come from a variable of the import stage's scope
    prog['repl_via_stage_var'] = template == 'replicated' and rr.random() < 0.4
    # a second platform with blueprints at every level (the loop is then created and reloaded on that platform)
    prog['platform_bp'] = rr.random() < 0.3
    # the producer of the loop's input may be replicated (the first body component then aggregates its replicas)
    prog['want_repl_input'] = rr.random() < 0.2
    # a command line may use one reference several times (files under the producer's directory)
    prog['dup_ref'] = rr.random() < 0.25
    # the condition component may read the loop-carried binding too (next to its same-iteration input)
    prog['stop_reads_binding'] = rr.random() < 0.3
    if prog['nodeps'] and rr.random() < 0.4:
        prog['free_name'] = rr.choice(['stop2', 'stop10', 'mid7'])
    return prog


def span_of(loop):
    return 1 if loop['template'] == 'mid-offset' else 0


def add_second_loop(rr, prog):
    """a second, independent DoWhile document in the same workflow: either its components carry a suffix (it may then share
    stages with the first loop) or they have the *same names* in other stages (names are unique per stage only). The two
    loops are iterated in a seeded interleaving"""
    second = gen_loop_program(rr)
    for key in ('reloads', 'uservars', 'kind'):
        second.pop(key, None)
    second['k'] = rr.choice([1, 2, 3, 10, 11, 12])
    second['name'] = prog['name'] + '2'
    second['suffix'] = rr.choice(['', '', 'B'])
    second['file'] = 'dowhile2.yaml'
    if second['suffix']:
        second['import_stage'] = rr.choice([0, 1, 2, prog['import_stage']])
    else:
        second['import_stage'] = prog['import_stage'] + span_of(prog) + rr.choice([1, 1, 2])
    if not second['suffix'] and rr.random() < 0.4:
        # the same document imported twice
        for key in ('template', 'method', 'repl', 'const_binding', 'nodeps', 'carried_from', 'stop_reads_binding', 'free_name',
                    'dup_ref', 'repl_via_stage_var'):
            second[key] = prog.get(key)
        second['file'] = 'dowhile.yaml'
        targets = {'chain': ['work', 'stop'], 'mid': ['work', 'mid', 'stop'], 'replicated': ['agg', 'stop'],
                   'mid-offset': ['work', 'mid', 'stop']}[second['template']]
        for o in second['outside']:
            if o['target'] not in targets:
                o['target'] = rr.choice(targets)
    for o in second['outside']:
        o['name'] = 'two' + o['name']
    if rr.random() < 0.3 and prog['template'] != 'replicated':
        # the second loop consumes the first one: its input binding names the placeholder of a looped component of the
        # first document ("its last iteration"); it is imported in a later stage; the two $import entries may be listed
        # in either order
        second['depends'] = {'target': prog['carried_from'], 'import_first': rr.random() < 0.5}
        second['import_stage'] = prog['import_stage'] + span_of(prog) + rr.choice([1, 1, 2])
        second['want_repl_input'] = False
        prog['want_repl_input'] = False
    prog['second'] = second
    order = [0] * prog['k'] + [1] * second['k']
    if not second.get('depends'):
        rr.shuffle(order)
    prog['order'] = order
    nrel = rr.choice([0, 1, 2])
    prog['reloads'] = sorted(rr.sample(range(0, len(order) + 1), min(nrel, len(order) + 1)))  # positions in 'order'
    return prog


def loops_of(prog):
    return [prog] + ([prog['second']] if prog.get('second') else [])


def body_components(prog):
    """(name, relative stage, refs [(producer, is_binding)], replicate, aggregate) of the loop body"""
    t = prog['template']
    m = prog['method']
    body = []
    work_refs = [('val', True)] + ([('const', True)] if prog['const_binding'] else [])
    if t == 'chain':
        body = [('work', 0, work_refs, None, False), ('stop', 0, [('work', False)], None, False)]
    elif t == 'mid':
        body = [('work', 0, work_refs, None, False), ('mid', 0, [('work', False)], None, False),
                ('stop', 0, [('mid', False)], None, False)]
    elif t == 'mid-offset':
        body = [('work', 0, work_refs, None, False), ('mid', 1, [('stage0.work', False)], None, False),
                ('stop', 1, [('mid', False)], None, False)]
    else:
        body = [('work', 0, work_refs, prog['repl'], False), ('agg', 0, [('work', False)], None, True),
                ('stop', 0, [('agg', False)], None, False)]
    if prog.get('repl_input'):
        body = [(n, st, refs, r, True if n == 'work' else a) for (n, st, refs, r, a) in body]
    if prog.get('stop_reads_binding'):
        body = [(n, st, ([('val', True)] + refs) if n == 'stop' else refs, r, a) for (n, st, refs, r, a) in body]
    if prog['nodeps']:
        # a component without dependencies; its name may extend the condition component's name with digits
        body.append((prog.get('free_name') or 'free', 0, [], None, False))
    sfx = prog.get('suffix') or ''
    if sfx:
        def ren(p, is_b):
            if is_b:
                return p
            return p + sfx
        body = [(n + sfx, st, [(ren(p, b), b) for (p, b) in refs], r, a) for (n, st, refs, r, a) in body]
    return body


def bn(loop, name):
    """name of a body component of this loop"""
    return name + (loop.get('suffix') or '')


def render_dw(prog):
    m = prog['method']
    sfx = prog.get('suffix') or ''
    lines = ['type: DoWhile', 'inputBindings:', '  val:', '    type: %s' % m]
    if prog['const_binding']:
        lines += ['  const:', '    type: ref']
    lines += ['loopBindings:', '  val: %s:%s' % ((prog['carried_from'] + sfx) if prog['template'] != 'mid-offset'
                                                 else 'stage1.mid' + sfx, m),
              "condition: '%sstop%s/iteration.next:output'" % ('stage1.' if prog['template'] == 'mid-offset' else '', sfx),
              'components:']
    for (name, st, refs, repl, agg) in body_components(prog):
        lines.append('- name: %s' % name)
        if st:
            lines.append('  stage: %d' % st)
        rs = []
        for (p, is_b) in refs:
            rs.append('%s:%s' % (p, m if (is_b and p == 'val') else 'ref'))
        args = ' '.join(rs) if rs else 'hello'
        if rs and prog.get('dup_ref') and m == 'ref':
            args = ' '.join('%s/a.txt %s/b.txt' % (r, r) if r.endswith(':ref') else r for r in rs)
        lines.append('  command: {executable: echo, arguments: "%s %%(loopIteration)s", expandArguments: none}' % args)
        if rs:
            lines.append('  references: [%s]' % ', '.join('"%s"' % r for r in rs))
        wa = []
        if repl and prog.get('repl_via_stage_var'):
            wa.append('replicate: "%(workers)s"')
        elif repl:
            wa.append('replicate: %d' % repl)
        if agg:
            wa.append('aggregate: true')
        if wa:
            lines.append('  workflowAttributes: {%s}' % ', '.join(wa))
    return '\n'.join(lines) + '\n'


def render_package(prog):
    """-> (main FlowIR text, {file name under conf/: DoWhile document}); fills o['ref'], o['stage'] of outside consumers"""
    loops = loops_of(prog)
    claimed = {}
    for lp in loops:  # one value of the stage-scoped variable per stage
        if lp.get('repl_via_stage_var'):
            if claimed.setdefault(lp['import_stage'], lp['repl']) != lp['repl']:
                lp['repl_via_stage_var'] = False
    flag = bool(prog.get('want_repl_input')) and all(lp['template'] != 'replicated' and not lp.get('stop_reads_binding')
                                                     for lp in loops)
    for lp in loops:
        lp['repl_input'] = 2 if flag else None
    main = []
    if prog.get('platform_bp'):
        stages = sorted(set(lp['import_stage'] + st for lp in loops for st in range(span_of(lp) + 1)))
        main += ['platforms: [default, px]', 'blueprint:', '  default:',
                 '    global: {resourceManager: {config: {walltime: 15.0}}}', '    stages:']
        main += ['      %d: {resourceManager: {config: {walltime: 20.0}}}' % st for st in stages]
        main += ['  px:', '    global: {resourceManager: {config: {walltime: 480.0}}}']
    main += ['variables:', '  default:', '    global:', '      targetLoops: 5', '      uv: default-uv', '      workers: 1']
    staged = [lp for lp in loops if lp.get('repl_via_stage_var')]
    if staged:
        main += ['    stages:']
        seen_st = set()
        for lp in staged:
            if lp['import_stage'] not in seen_st:
                seen_st.add(lp['import_stage'])
                main += ['      %d: {workers: %d}' % (lp['import_stage'], lp['repl'])]
    main += ['components:',
             '- stage: 0', '  name: GenerateInput', '  command: {executable: echo, arguments: "0 %(uv)s"}']
    if flag:
        main += ['  workflowAttributes: {replicate: 2}']
    if any(lp['const_binding'] for lp in loops):
        main += ['- stage: 0', '  name: Const', '  command: {executable: echo, arguments: "c"}']
    for st in range(1, max(lp['import_stage'] for lp in loops)):
        main += ['- stage: %d' % st, '  name: Filler%d' % st, '  command: {executable: echo, arguments: "f"}']
    files = {}
    imports = []
    for lp in loops:
        S = lp['import_stage']
        m = lp['method']
        fname = lp.get('file') or 'dowhile.yaml'
        files[fname] = render_dw(lp)
        src = 'stage0.GenerateInput'
        if lp.get('depends'):
            first = loops[0]
            bs0 = {n: st for (n, st, _, _, _) in body_components(first)}
            tname = bn(first, lp['depends']['target'])
            src = 'stage%d.%s' % (first['import_stage'] + bs0[tname], tname)
            lp['depends']['stage'] = first['import_stage'] + bs0[tname]
            lp['depends']['name'] = tname
        entry = ['- stage: %d' % S, '  $import: %s' % fname, '  name: %s' % lp['name'], '  bindings:',
                 '    val: %s:%s' % (src, m)]
        if lp['const_binding']:
            entry += ['    const: stage0.Const:ref']
        imports.append(entry)
    if len(loops) > 1 and (loops[1].get('depends') or {}).get('import_first'):
        imports.reverse()
    for entry in imports:
        main += entry
    for lp in loops:
        S = lp['import_stage']
        body_stage = {n: st for (n, st, _, _, _) in body_components(lp)}
        for o in lp['outside']:
            tname = bn(lp, o['target'])
            tgt_stage = S + body_stage[tname]
            ref = 'stage%d.%s:%s' % (tgt_stage, tname, o['method'])
            if o['method'] in ('output', 'loopoutput') and o['target'] == 'stop':
                ref = 'stage%d.%s/iteration.next:%s' % (tgt_stage, tname, o['method'])
            main += ['- stage: %d' % (tgt_stage + 1), '  name: %s' % o['name'],
                     '  command: {executable: echo, arguments: "%s"}' % ref, '  references: ["%s"]' % ref]
            o['ref'] = ref
            o['stage'] = tgt_stage + 1
    if prog.get('linker'):
        # a plain component of the last stage whose input is staged by linking / copying a directory
        last_ = max([lp['import_stage'] + span_of(lp) for lp in loops] + [o['stage'] for lp in loops for o in lp['outside']])
        main += ['- stage: %d' % last_, '  name: Linker', '  command: {executable: echo, arguments: "GenerateInput"}',
                 '  references: ["stage0.GenerateInput:%s"]' % prog['linker']]
        prog['last_stage'] = last_
    if prog.get('bomb'):
        # a component of a later stage without producers: it starts early, next to the loop (c02loop lets it fail)
        last = max([lp['import_stage'] + span_of(lp) for lp in loops] + [o['stage'] for lp in loops for o in lp['outside']])
        main += ['- stage: %d' % (last + 1 if prog['bomb'].get('after') else last), '  name: Bomb',
                 '  command: {executable: echo, arguments: "tick"}']
    return '\n'.join(main) + '\n', files


def render_loop(prog):
    """single-loop packages: (main, text of conf/dowhile.yaml)"""
    main, files = render_package(prog)
    return main, files['dowhile.yaml']


def expected_loop(prog, k):
    """the reference unroller for ONE loop: node names, predecessor sets, placeholders, state after k further iterations"""
    S = prog['import_stage']
    m = prog['method']
    body = body_components(prog)
    body_stage = {n: st for (n, st, _, _, _) in body}
    repl = {n: r for (n, _, _, r, _) in body}

    def inst(name, i):
        st = S + body_stage[name]
        if repl[name]:
            return ['stage%d.%d#%s%d' % (st, i, name, r) for r in range(repl[name])]
        return ['stage%d.%d#%s' % (st, i, name)]

    gen = ['stage0.GenerateInput%d' % r for r in range(prog['repl_input'])] if prog.get('repl_input') else ['stage0.GenerateInput']
    nodes = {g: set() for g in gen}
    if prog['const_binding']:
        nodes['stage0.Const'] = set()
    carried = bn(prog, prog['carried_from'])
    for i in range(k + 1):
        for (name, st, refs, r, agg) in body:
            for idx, node in enumerate(inst(name, i)):
                preds = set()
                for (p, is_b) in refs:
                    if is_b and p == 'val':
                        if i == 0 and prog.get('depends'):
                            preds.add('@first-loop')  # resolved by the judge: it knows how far the first loop got
                        elif i == 0:
                            preds.update(gen)
                        else:
                            preds.update(inst(carried, i - 1))
                    elif is_b and p == 'const':
                        preds.add('stage0.Const')
                    else:
                        pn = p.split('.')[-1]
                        cands = inst(pn, i)
                        if repl[pn] and not agg and repl[name]:
                            preds.add(cands[idx])
                        else:
                            preds.update(cands)
                nodes[node] = preds
    placeholders = {}
    for (name, st, refs, r, agg) in body:
        if r:
            for ri in range(r):
                ref = 'stage%d.%s%d' % (S + st, name, ri)
                placeholders[ref] = {'represents': set('stage%d.%d#%s%d' % (S + st, i, name, ri) for i in range(k + 1)),
                                     'latest': 'stage%d.%d#%s%d' % (S + st, k, name, ri)}
        else:
            ref = 'stage%d.%s' % (S + st, name)
            placeholders[ref] = {'represents': set('stage%d.%d#%s' % (S + st, i, name) for i in range(k + 1)),
                                 'latest': 'stage%d.%d#%s' % (S + st, k, name)}
    stop = bn(prog, 'stop')
    state = {'currentIteration': k,
             'currentCondition': 'stage%d.%d#%s/iteration.next:output' % (S + body_stage[stop], k, stop)}
    return nodes, placeholders, state


def ks_of(prog, k):
    """iteration counts per loop from an int (single loop) or a list"""
    if isinstance(k, (list, tuple)):
        return list(k)
    return [k] + [0] * (len(loops_of(prog)) - 1)


# ---------------------------------------------------------------------------------------------------
class Session:
    """the live objects of one 'process'"""

    def __init__(self, exp):
        self.exp = exp
        self.wg = exp.experimentGraph


def new_instance(prog, root, variable_files=None, platform=None):
    from sim import runtime as R
    main, files = render_package(prog)
    exp = R.build_experiment(main, root, extra_files={'conf/%s' % f: t for f, t in files.items()},
                             variable_files=variable_files, platform=platform)
    return exp


def reload_instance(path, platform=None):
    import experiment.model.data as D
    exp = D.Experiment.experimentFromInstance(path, platform=platform)
    exp.validateExperiment(checkExecutables=True)
    return exp


def prepare_iteration_dirs(exp, names, iteration_of):
    """what the controller does for the new nodes of an iteration + what the tasks would leave behind"""
    inst = exp.instanceDirectory
    for ref in names:
        spec = exp.graph.nodes[ref]['componentSpecification']
        cid = spec.identification
        d = inst.createJobWorkingDirectory(cid.stageIndex, cid.componentName)
        wd = d.path if hasattr(d, 'path') else str(d)
        it = iteration_of(ref)
        with open(os.path.join(wd, 'out.stdout'), 'w') as f:
            f.write('stdout-of-%s\n' % ref)
        with open(os.path.join(wd, 'iteration.next'), 'w') as f:
            f.write('True\n')


def iteration_of(ref):
    name = ref.split('.', 1)[1]
    return int(name.split('#', 1)[0]) if '#' in name else None


ARGS = {}
LOCATIONS = {}


def nodes_with_hash(g):
    return [n for n in g.nodes if '#' in n]


def observe_loop(exp, prog):
    ARGS.clear()
    LOCATIONS.clear()
    """what the properties talk about, read off the live graph"""
    import experiment.model.frontends.flowir as F
    import experiment.model.graph as G
    wg = exp.experimentGraph
    g = wg.graph
    nodes = {n: set(g.predecessors(n)) for n in g.nodes}
    ph = {}
    for ref, d in wg._placeholders.items():
        ph[ref] = {'represents': set(d['represents']), 'latest': d['latest'], 'n_represents': len(d['represents'])}
    docs = wg._documents.get(F.FlowIR.LabelDoWhile, {})
    state = {}
    for name in docs:
        state[name] = dict(docs[name].get('state') or {})
    # what each loop instance is told on its command line vs what it is wired to
    conc = wg.configuration.get_flowir_concrete(return_copy=False)
    for n in nodes_with_hash(g):
        st, name = n.split('.', 1)
        try:
            c = conc.get_component_configuration((int(st[5:]), name), raw=True)
            import re as _re
            toks = _re.findall(r'[^\s"]+?:(?:ref|output|copy|link|loopref|loopoutput)\b', str(c['command'].get('arguments', '')))
            ARGS[n] = (sorted(set(toks)), sorted(set(c.get('references') or [])))
        except Exception as e:
            ARGS[n] = ('ERR:%s' % type(e).__name__, None)
    resolved = {}
    for o in [o for lp in loops_of(prog) for o in lp['outside']]:
        node = 'stage%d.%s' % (o['stage'], o['name'])
        try:
            spec = g.nodes[node]['componentSpecification']
            drs = [d for d in spec.dataReferences]
            vals = []
            for d in drs:
                try:
                    vals.append(d.resolve(wg))
                except Exception as e:
                    vals.append('ERR:%s' % type(e).__name__)
            resolved[o['name']] = vals
            # the other way a reference is turned into a path (used for key-outputs): DataReference.location()
            locs = []
            for d in drs:
                try:
                    locs.append(d.location(wg))
                except Exception as e:
                    locs.append('ERR:%s' % type(e).__name__)
            LOCATIONS[o['name']] = locs
        except Exception as e:
            resolved[o['name']] = ['ERR:%s:%s' % (type(e).__name__, str(e)[:100])]
    return nodes, ph, state, resolved


def expected_resolution(exp, prog, k):
    """for ONE loop"""
    S = prog['import_stage']
    body_stage = {n: st for (n, st, _, _, _) in body_components(prog)}
    inst = exp.instanceDirectory.location
    out = {}
    for o in prog['outside']:
        tname = bn(prog, o['target'])
        st = S + body_stage[tname]

        def wd(i):
            return os.path.join(inst, 'stages', 'stage%d' % st, '%d#%s' % (i, tname))

        file_ref = 'iteration.next' if (o['method'] in ('output', 'loopoutput') and o['target'] == 'stop') else None
        if o['method'] == 'ref':
            out[o['name']] = [wd(k)]
        elif o['method'] == 'output':
            out[o['name']] = ['True' if file_ref else 'stdout-of-stage%d.%d#%s' % (st, k, tname)]
        elif o['method'] == 'loopref':
            out[o['name']] = [' '.join(wd(i) for i in range(k + 1))]
        elif o['method'] == 'loopoutput':
            if file_ref:
                out[o['name']] = [' '.join('True' for i in range(k + 1))]
            else:
                out[o['name']] = [' '.join('stdout-of-stage%d.%d#%s' % (st, i, tname) for i in range(k + 1))]
    return out


def judge_loop(exp, prog, k, viol, where, cnt):
    nodes, ph, state, resolved = observe_loop(exp, prog)
    loops = loops_of(prog)
    ks = ks_of(prog, k)
    e_nodes, e_ph, e_state, e_res = {}, {}, {}, {}
    for lp, kk in zip(loops, ks):
        n_, p_, s_ = expected_loop(lp, kk)
        e_nodes.update(n_)
        e_ph.update(p_)
        e_state['stage%d.%s' % (lp['import_stage'], lp['name'])] = s_
        e_res.update(expected_resolution(exp, lp, kk))
    two = len(loops) > 1

    def V(sig, detail):
        if not any(v['sig'] == sig and v['property'] == 'C05' for v in viol):
            detail = dict(detail)
            detail.update({'k': k, 'where': where, 'crosses_10': max(ks) >= 10})
            if two:
                detail['second_loop'] = {'suffix': loops[1].get('suffix'), 'import_stage': loops[1]['import_stage']}
            viol.append({'property': 'C05', 'sig': sig, 'detail': detail})

    looped = {n for n in nodes if '#' in n}
    e_looped = {n for n in e_nodes if '#' in n}
    if looped != e_looped:
        V('instances:set-of-loop-instances-differs', {'missing': sorted(e_looped - looped)[:6], 'extra': sorted(looped - e_looped)[:6]})
        return
    for n in sorted(e_looped):
        got = {p for p in nodes[n]}
        if '@first-loop' in e_nodes[n]:
            # consumer of the first loop's placeholder: wired to every instance of the looped component (and nothing
            # outside the first loop, apart from its other expected producers)
            dep = loops[1]['depends']
            must = {'stage%d.%d#%s' % (dep['stage'], i, dep['name']) for i in range(ks[0] + 1)}
            first_nodes = {x for x in nodes if '#' in x and int(x.split('.')[0][5:]) in
                           range(loops[0]['import_stage'], loops[0]['import_stage'] + span_of(loops[0]) + 1)}
            rest = e_nodes[n] - {'@first-loop'}
            if not (must | rest) <= got or not got <= (first_nodes | rest):
                V('wiring:consumer-of-another-loop-not-wired-to-its-instances', {'node': n, 'must_include': sorted(must | rest),
                                                                                  'got': sorted(got)})
                break
            continue
        if got != e_nodes[n]:
            V('wiring:predecessors-of-instance-differ', {'node': n, 'expected': sorted(e_nodes[n]), 'got': sorted(got)})
            break
    for n in sorted(e_looped):
        a = ARGS.get(n)
        if a is not None and a[1] is not None and a[0] != a[1]:
            V('wiring:command-line-of-instance-names-other-inputs-than-its-references',
              {'node': n, 'arguments': a[0], 'references': a[1]})
            break
    for ref, e in e_ph.items():
        p = ph.get(ref)
        if p is None:
            V('placeholder:missing', {'placeholder': ref})
            continue
        if p['represents'] != e['represents'] or p['n_represents'] != len(e['represents']):
            V('placeholder:represents-differs', {'placeholder': ref, 'expected': len(e['represents']), 'got': p['n_represents']})
        if p['latest'] != e['latest']:
            V('placeholder:latest-is-not-numerically-highest-iteration', {'placeholder': ref, 'expected': e['latest'], 'got': p['latest']})
    for dname, es in e_state.items():
        st = state.get(dname)
        if st is None or st.get('currentIteration') != es['currentIteration']:
            V('state:current-iteration-differs', {'document': dname, 'expected': es, 'got': st})
        elif st.get('currentCondition') != es['currentCondition']:
            V('state:current-condition-differs', {'document': dname, 'expected': es, 'got': st})
    for lp, kk in zip(loops, ks):
        bs_ = {n: st for (n, st, _, _, _) in body_components(lp)}
        for o in lp['outside']:
            if o['method'] not in ('ref', 'output'):
                continue
            tname = bn(lp, o['target'])
            want = os.path.join(exp.instanceDirectory.location, 'stages', 'stage%d' % (lp['import_stage'] + bs_[tname]),
                                '%d#%s' % (kk, tname))
            if o['method'] == 'output':
                if o['target'] != 'stop':
                    continue
                want = os.path.join(want, 'iteration.next')
            got = (LOCATIONS.get(o['name']) or ['?'])[0]
            if os.path.realpath(got) != os.path.realpath(want):
                V('resolve:location-of-%s-reference-from-outside-the-loop' % o['method'],
                  {'consumer': o['name'], 'reference': o['ref'], 'expected': want[-120:], 'got': str(got)[-120:]})
    for o in [o for lp in loops for o in lp['outside']]:
        if resolved.get(o['name']) != e_res[o['name']]:
            V('resolve:%s-reference-from-outside-the-loop' % o['method'],
              {'consumer': o['name'], 'reference': o['ref'], 'expected': e_res[o['name']][0][-160:],
               'got': (resolved.get(o['name']) or ['?'])[0][-160:]})
    cnt['probe.loop_judgements'] = cnt.get('probe.loop_judgements', 0) + 1
    if two:
        cnt['probe.judged_with_two_documents'] = cnt.get('probe.judged_with_two_documents', 0) + 1
    if max(ks) >= 10:
        cnt['probe.judged_at_k_ge_10'] = cnt.get('probe.judged_at_k_ge_10', 0) + 1


# ---------------------------------------------------------------------------------------------------
def snapshot_experiment(exp):
    """C07: what must be the same before and after a reload (taken in the same lifecycle state)"""
    from checks import c15_loader as L
    import experiment.model.frontends.flowir as F
    wg = exp.experimentGraph
    inst = exp.instanceDirectory.location
    subst = [(inst, '<INSTANCE>'), (os.path.realpath(inst), '<INSTANCE>')]
    d = L.dump_graph(wg, subst, False)
    # Edges from the condition instance of an *earlier* iteration to a consumer outside the loop are bookkeeping of the
    # live graph (each iteration adds the edge from its condition, none is removed); they are not data references and
    # a freshly loaded graph has only the one from the current condition
    docs0 = wg._documents.get(F.FlowIR.LabelDoWhile, {})
    stale = {}  # condition instance of a finished iteration -> (stages, names) of its own loop body
    for name in docs0:
        st = docs0[name].get('state') or {}
        cur = st.get('currentCondition')
        if not cur:
            continue
        cur_node = cur.split('/')[0].split(':')[0]
        stage, cname = cur_node.split('.', 1)
        cur_it, base = cname.split('#', 1)
        doc = docs0[name].get('document') or {}
        own = set((int(doc.get('stage', 0)) + int(c.get('stage', 0)), c['name']) for c in doc.get('components', []))
        for i in range(int(cur_it)):
            stale['%s.%d#%s' % (stage, i, base)] = own

    def outside(node, own):
        # not an instance of the loop the condition belongs to (a plain component or an instance of another loop)
        st_, nm = node.split('.', 1)
        if '#' not in nm:
            return True
        b = nm.split('#', 1)[1]
        return not any(s_ == int(st_[5:]) and (b == n_ or (b.startswith(n_) and b[len(n_):].isdigit())) for (s_, n_) in own)

    d['edges'] = [e for e in d['edges'] if not (e[0] in stale and outside(e[1], stale[e[0]]))]
    for n in d['nodes']:
        d['nodes'][n].pop('env', None)  # launch-environment: not part of the stored description
    conc = wg.configuration.get_flowir_concrete(return_copy=True)
    d['platform'] = wg.configuration.platform_name
    # the name of the experiment (also handed to every task as FLOW_EXPERIMENT_NAME) is derived from the package by the
    # writer and from the instance directory by a process that loads the instance; the case hash is taken out
    try:
        d['experiment_name'] = re.sub(r'[0-9a-f]{12}', '<H>', str(exp.instanceDirectory.name))
    except Exception as e:
        d['experiment_name'] = 'ERR:%s' % type(e).__name__
    # the environments the components name, as the selected platform resolves them (default layered under the platform)
    conc_live = wg.configuration.get_flowir_concrete(return_copy=False)
    envs = {}
    for n in d['nodes']:
        try:
            name = ((d['nodes'][n].get('config') or {}).get('command') or {}).get('environment')
        except AttributeError:
            name = None
        if name and name not in envs and str(name).lower() not in ('none', 'environment'):
            try:
                envs[name] = L.canon(conc_live.get_environment(name, strict_checks=False), subst)
            except Exception as e:
                try:
                    envs[name] = L.canon(conc_live.get_environment(name), subst)
                except Exception as e2:
                    envs[name] = 'ERR:%s' % type(e2).__name__
    d['environments'] = envs
    d['vars'] = L.canon({str(s): conc.get_platform_stage_variables(s) for s in range(conc.get_stage_number())}, subst)
    d['global_vars'] = L.canon(conc.get_platform_global_variables(), subst)
    d['placeholders'] = L.canon({k: {'represents': sorted(v['represents']), 'latest': v['latest']}
                                 for k, v in wg._placeholders.items()}, subst)
    docs = wg._documents.get(F.FlowIR.LabelDoWhile, {})
    d['dowhile'] = L.canon({k: docs[k].get('state') for k in docs}, subst)
    return d


def conf_bytes(exp):
    """the stored description, parsed: the order in which the component entries are listed is not part of it"""
    import yaml
    cdir = exp.experimentGraph.configuration.configurationDirectory
    out = {}
    for f in ('flowir_instance.yaml', 'manifest.yaml'):
        try:
            with open(os.path.join(cdir, f), 'rb') as fh:
                doc = yaml.safe_load(fh.read())
        except FileNotFoundError:
            out[f] = None
            continue
        if isinstance(doc, dict) and isinstance(doc.get('components'), list):
            # (the order of the component entries is part of what is compared: loading and storing must not shuffle them)
            for c in doc['components']:
                wa = c.get('workflowAttributes')
                # isRepeat is derived from repeatInterval by the loader; materialising the derived value on the first
                # load+store (when the interval was inherited from a blueprint) does not change the description
                if isinstance(wa, dict) and 'isRepeat' in wa and 'repeatInterval' in wa \
                        and wa['isRepeat'] == (wa['repeatInterval'] not in (None, 0)):
                    del wa['isRepeat']
        out[f] = json.dumps(doc, sort_keys=True, default=repr)
    return out


def judge_reload(before, before_bytes, exp2, viol, where, cnt, ignore=(), tag=''):
    from checks.c15 import first_diff
    after = snapshot_experiment(exp2)
    for k in ignore:
        after.pop(k, None)
        before.pop(k, None)
    if tag:
        # the platform was not named on this load: sections addressed by the platform's *name* (a component's
        # override.<platform>) are not reachable; what they contribute is in the resolved values, which are compared
        for snap in (before, after):
            for n in snap.get('nodes', {}).values():
                if isinstance(n.get('config'), dict):
                    n['config'].pop('override', None)
    after_bytes = conf_bytes(exp2)

    def V(sig, detail):
        if not any(v['sig'] == sig and v['property'] == 'C07' for v in viol):
            detail = dict(detail)
            detail['where'] = where
            viol.append({'property': 'C07', 'sig': sig, 'detail': detail})

    d = first_diff(before, after)
    if d:
        parts = d[0].split('/')
        top = parts[1] if len(parts) > 1 else ''
        sub = parts[3] if top == 'nodes' and len(parts) > 3 else ''
        V('reload:%s%s-differs' % (top, (':' + sub) if sub else ''),
          {'path': d[0], 'writer': json.dumps(d[1], default=repr)[:300], 'reloaded': json.dumps(d[2], default=repr)[:300]})
    for f in before_bytes:
        if before_bytes[f] != after_bytes[f]:
            V('fixpoint:%s-changes-on-load-and-store%s' % (f, tag), {'before': None if before_bytes[f] is None else len(before_bytes[f]),
                                                           'after': None if after_bytes[f] is None else len(after_bytes[f])})
    cnt['probe.reloads_judged'] = cnt.get('probe.reloads_judged', 0) + 1


def judge_uniform(exp, new, viol, where, steps):
    """C07: an iteration instantiated from a reloaded description is configured like the iterations before it (the
    description it came from is the same experiment): resource and workflow options of instance i equal those of i-1"""
    wg = exp.experimentGraph
    conc = wg.configuration.get_flowir_concrete(return_copy=False)
    for ref in sorted(new):
        st, name = ref.split('.', 1)
        it, base = name.split('#', 1)
        prev = '%s.%d#%s' % (st, int(it) - 1, base)
        if int(it) < 1 or prev not in wg.graph.nodes:
            continue
        try:
            a = conc.get_component_configuration((int(st[5:]), '%d#%s' % (int(it) - 1, base)), raw=False)
            b = conc.get_component_configuration((int(st[5:]), name), raw=False)
        except Exception:
            continue
        for sect in ('resourceManager', 'workflowAttributes', 'resourceRequest'):
            if a.get(sect) != b.get(sect):
                from checks.c15 import first_diff
                d = first_diff(a.get(sect), b.get(sect))
                if not any(v['sig'].startswith('reload:iteration-configured-differently') for v in viol):
                    viol.append({'property': 'C07', 'sig': 'reload:iteration-configured-differently-from-the-one-before[%s]' % sect,
                                 'detail': {'instance': ref, 'previous': prev, 'where': where,
                                            'after_reload': any(x.startswith('reload') for x in steps),
                                            'first_difference': json.loads(json.dumps(d, default=repr))}})
                return


def run_loop_history(prog, root, viol, cnt, fixpoint_cycles=1):
    import experiment.model.frontends.flowir as F
    vfiles = None
    if prog.get('uservars'):
        import yaml
        vp = os.path.join(root, 'uservars.yaml')
        with open(vp, 'w') as f:
            yaml.safe_dump({'global': {'uv': 'from-user'}}, f)
        vfiles = [vp]
    plat = 'px' if prog.get('platform_bp') else None
    try:
        exp = new_instance(prog, root, variable_files=vfiles, platform=plat)
    except Exception as e:
        import experiment.model.errors as E
        if isinstance(e, (E.ExperimentInvalidConfigurationError, E.UndeclaredDataReferenceError, E.DataReferenceFilesDoNotExistError,
                          E.FlowIRConfigurationErrors)) or type(e).__name__.endswith('Error'):
            # every generated package is legal: the same components outside a DoWhile document load
            viol.append({'property': 'C05', 'sig': 'instances:package-with-this-document-does-not-load',
                         'detail': {'error': repr(e)[:700], 'dup_ref': bool(prog.get('dup_ref')),
                                    'template': prog.get('template')}})
            return ['create failed']
        raise
    path = exp.instanceDirectory.location
    prepare_iteration_dirs(exp, [n for n in exp.graph.nodes], iteration_of)
    loops = loops_of(prog)
    order = prog.get('order') if prog.get('second') else [0] * prog['k']
    ks = [0] * len(loops)
    judge_loop(exp, prog, list(ks), viol, 'after creation', cnt)
    steps = []
    for pos in range(0, len(order) + 1):
        if pos in prog['reloads']:
            # crash + restart: only the directory survives
            try:
                exp.validateExperiment(checkExecutables=True)  # same lifecycle state as the reloaded experiment
            except Exception as e:
                viol.append({'property': 'C05', 'sig': 'instances:experiment-fails-its-own-validation-after-iterating',
                             'detail': {'where': 'before reload at step %d' % pos, 'k': list(ks), 'error': repr(e)[:600]}})
                steps.append('validate@%d failed' % pos)
                return steps
            before = snapshot_experiment(exp)
            bb = conf_bytes(exp)
            del exp
            try:
                exp = reload_instance(path, platform=plat)
            except Exception as e:
                # only the directory survived the crash and it cannot be loaded any more
                for prop, sig in (('C07', 'reload:instance-does-not-load'), ('C05', 'instances:stored-iterations-do-not-load')):
                    viol.append({'property': prop, 'sig': sig,
                                 'detail': {'where': 'reload at step %d' % pos, 'k': list(ks), 'error': repr(e)[:600]}})
                steps.append('reload@%d failed' % pos)
                return steps
            cnt['fault.crash_and_reload'] = cnt.get('fault.crash_and_reload', 0) + 1
            judge_reload(before, bb, exp, viol, 'reload at step %d' % pos, cnt)
            for c in range(fixpoint_cycles - 1):
                b2 = conf_bytes(exp)
                s2 = snapshot_experiment(exp)
                exp = reload_instance(path, platform=plat)
                judge_reload(s2, b2, exp, viol, 'reload cycle %d at step %d' % (c + 2, pos), cnt)
            judge_loop(exp, prog, list(ks), viol, 'after reload at step %d' % pos, cnt)
            steps.append('reload@%d' % pos)
        if pos == len(order):
            break
        li = order[pos]
        lp = loops[li]
        wg = exp.experimentGraph
        docs = wg._documents[F.FlowIR.LabelDoWhile]
        name = 'stage%d.%s' % (lp['import_stage'], lp['name'])
        try:
            new = wg.instantiate_dowhile_next_iteration(docs[name]['document'], ks[li] + 1, True)
        except Exception as e:
            viol.append({'property': 'C05', 'sig': 'instances:next-iteration-cannot-be-instantiated',
                         'detail': {'document': name, 'iteration': ks[li] + 1, 'k': list(ks), 'error': repr(e)[:600],
                                    'replicated_input': bool(lp.get('repl_input'))}})
            steps.append('iter%d.%d failed' % (li, ks[li] + 1))
            return steps
        ks[li] += 1
        cnt['op.iterate'] = cnt.get('op.iterate', 0) + 1
        # the controller's part: jobs, working directories; the tasks' part: their outputs
        import experiment.model.data as D
        for ref in new:
            spec = exp.graph.nodes[ref]['componentSpecification']
            cid = spec.identification
            directory = exp.instanceDirectory.createJobWorkingDirectory(cid.stageIndex, cid.componentName)
            job = D.Job.jobFromConfiguration(cid, wg, directory)
            exp.getStage(cid.stageIndex).add_job(job)
        prepare_iteration_dirs(exp, new, iteration_of)
        judge_loop(exp, prog, list(ks), viol, 'after iteration %s' % ks, cnt)
        judge_uniform(exp, new, viol, 'after iteration %s' % ks, steps)
        steps.append('iter%d.%d' % (li, ks[li]))
        if any(v['property'] == 'C05' for v in viol) and len(viol) >= 3:
            break
    return steps
