"""C12 - task restarts stay within the configured policy (see checks/wf.py)."""
from checks import common
from checks.wf import *  # noqa: F401,F403
from checks import wf

PROPERTY = 'C12'
TIERS = {
    'quick': {'runs': 900, 'budget_s': 150, 'shrink_runs': 150, 'opts': {'max_vtime': 6000.0, 'wall_timeout': 200}},
    'thorough': {'runs': 60000, 'budget_s': 1500, 'shrink_runs': 300, 'opts': {'max_vtime': 6000.0, 'wall_timeout': 300}},
}
RULE = ('each run = 1-3 components with a generated restart policy (restartHookOn, maxRestarts in {unset,-1,0,1,2,5}, '
        'restartHookFile in {unset,"",named}), failure sequences of up to 12 executions incl. launch failures, a '
        'generated hooks/restart.py answering from the fault plan (possible, not required, not possible, failed, raising, '
        'bool, junk) x one seeded schedule. Oracle over the launch history: relaunch only after a restartable exit or a '
        'failed submission, never after killed/cancelled, restarts <= maximum, <= 5 consecutive resubmissions, a refused '
        'restart ends in a final state, nothing launches after the final state. distinct_nontrivial = distinct abstract '
        'histories; non-trivial = at least one component exited non-successfully')
ASSUMPTIONS = common.ASSUMPTIONS_E1 + [
    'policy attributes are read from the loaded component specification (defaults as shipped)',
]


def gen_case(seed, tier, index=0):
    if index % 4 == 3:
        return wf.gen_case_dag(seed, tier, index, restart_bias=True)
    if index % 8 == 5:
        return wf.gen_case_repeating_restart(seed, tier, index)
    if index % 4 == 0:
        return wf.gen_case_stop_during_restart(seed, tier, index)
    return wf.gen_case_restart(seed, tier, index)
