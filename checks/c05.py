"""C05 - DoWhile unrolling is wired correctly for any number of iterations (E2, see checks/e2.py)."""
import copy
import hashlib
import json
import os
import random
import shutil

from checks import e2
from checks.e2 import BOOT, LEVEL, REAL, STUB  # noqa: F401

PROPERTY = 'C05'
TIERS = {
    'quick': {'runs': 150, 'budget_s': 130, 'shrink_runs': 60, 'opts': {'wall_timeout': 200}},
    'thorough': {'runs': 8000, 'budget_s': 1500, 'shrink_runs': 120, 'opts': {'wall_timeout': 300}},
}
RULE = ('each evaluation = one generated DoWhile package (import stage 0-2; body chain / with intermediate component / '
        'replicated+aggregated / spanning two relative stages; loop-carried binding by :ref or :output, optional constant '
        'binding; outside consumers by :ref, :output, :loopref, :loopoutput) driven through k in {1,2,3,9,10,11,12,20,25} '
        'calls of instantiate_dowhile_next_iteration(store_flowir_to_disk=True), with 0-3 crash+reload points. After every '
        'step the graph, placeholders, loop state and DataReference.resolve() are compared with an independent reference '
        'unroller. 30 % of the packages contain a second, independent DoWhile document (same component names in other stages - '
        'also the same file imported twice - or suffixed names, possibly in the same stages), iterated in a seeded interleaving '
        'with the first. distinct_nontrivial = number of judged (history, step) pairs of distinct histories; non-trivial = k >= 1')
ASSUMPTIONS = ['the reference unroller encodes the statement (instances 0..k, loop-carried inputs from i-1, others from the '
               'original bindings, latest = numerically highest, aggregate references in increasing order, current condition = '
               'iteration k); naming stage<s>.<i>#<name>[<replica>] is the documented one',
               'the harness creates working directories and the files the tasks would leave, as the controller and tasks do']


def gen_case(seed, tier, index=0):
    rr = random.Random(seed)
    prog = e2.gen_loop_program(rr)
    if rr.random() < 0.3:
        e2.add_second_loop(rr, prog)
    return {'prog': prog}


def shrink_candidates(case):
    p = case['prog']
    if p.get('second'):
        # without the second document; with fewer iterations of either; with a suffix (distinct names)
        c = copy.deepcopy(case)
        del c['prog']['second']
        c['prog'].pop('order', None)
        c['prog']['reloads'] = []
        yield c
        for li in (0, 1):
            n = p['order'].count(li)
            for keep in (1, 2):
                if keep < n:
                    c = copy.deepcopy(case)
                    seen = 0
                    order = []
                    for x in p['order']:
                        if x == li:
                            seen += 1
                            if seen > keep:
                                continue
                        order.append(x)
                    c['prog']['order'] = order
                    (c['prog'] if li == 0 else c['prog']['second'])['k'] = keep
                    c['prog']['reloads'] = []
                    yield c
        if p['reloads']:
            c = copy.deepcopy(case)
            c['prog']['reloads'] = []
            yield c
        return
    for k in sorted(set([1, 2, 9, 10, 11, p['k'] - 1])):
        if 0 < k < p['k']:
            c = copy.deepcopy(case)
            c['prog']['k'] = k
            c['prog']['reloads'] = [r for r in p['reloads'] if r <= k]
            yield c
    if p['reloads']:
        c = copy.deepcopy(case)
        c['prog']['reloads'] = []
        yield c
        for i in range(len(p['reloads'])):
            c = copy.deepcopy(case)
            del c['prog']['reloads'][i]
            yield c
    if len(p['outside']) > 1:
        for i in range(len(p['outside'])):
            c = copy.deepcopy(case)
            c['prog']['outside'] = [p['outside'][i]]
            yield c
    for key, val in (('const_binding', False), ('nodeps', False), ('uservars', False), ('template', 'chain'), ('import_stage', 0)):
        if p.get(key) != val:
            c = copy.deepcopy(case)
            c['prog'][key] = val
            if key == 'template':
                c['prog']['repl'] = None
                c['prog']['carried_from'] = 'work'
                for o in c['prog']['outside']:
                    if o['target'] not in ('work', 'stop'):
                        o['target'] = 'work'
            yield c


def run_case(case, schedule, opts):
    key = hashlib.sha256(json.dumps(case, sort_keys=True).encode()).hexdigest()[:12]
    root = '/dev/shm/verif-e2-%s' % key
    shutil.rmtree(root, ignore_errors=True)
    os.makedirs(root)
    result = {'violations': [], 'counters': {}}
    try:
        steps = e2.run_loop_history(copy.deepcopy(case['prog']), root, result['violations'], result['counters'])
    finally:
        from sim import runtime as R
        R.cleanup_root(root)
    result['digest'] = result['abstract'] = key
    result['distinct_units'] = result['counters'].get('probe.loop_judgements', 0)
    main, files = e2.render_package(copy.deepcopy(case['prog']))
    result['sample'] = {'program': case['prog'], 'flowir': main, 'dowhile': files, 'steps': steps[:40]}
    return result
