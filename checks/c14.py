"""C14 - experiment state files are updated atomically and read back faithfully (E4: SimFS fault enumeration).

One case = one writer and one history of updates. A fault-free pass checks fidelity after every update and counts the
write boundaries of the last update; then every (boundary, fault kind) of that update is executed: crash before/after,
torn flush, EIO, ENOSPC, rename failure. After the fault each state file must hold the complete previous or the
complete new version and must load.
"""
import copy
import json
import os
import random
import shutil

PROPERTY = 'C14'
LEVEL = 'fault_enumeration'
BOOT = {'kernel': False}
TIERS = {
    'quick': {'runs': 160, 'budget_s': 130, 'shrink_runs': 60, 'opts': {'wall_timeout': 200, 'max_boundaries': 40}},
    'thorough': {'runs': 6000, 'budget_s': 1500, 'shrink_runs': 120, 'opts': {'wall_timeout': 900, 'max_boundaries': 400, 'max_boundaries_slow': 80}},
}
RULE = ('each evaluation = one writer (Status.update, OutputAgent.updateLogs, StatusMonitor.try_generate_status_details, '
        'store_unreplicated_flowir_to_disk incl. after a DoWhile iteration, manifest writer of _generate_instance_files) x one '
        'generated history of 1-8 updates; every write boundary of the last update (open, each write, flush, close, rename, '
        'remove; sampled down to max_boundaries when there are more) x {crash-before, crash-after, crash-torn, eio, enospc, '
        'rename-fail} is executed. distinct_nontrivial = number of distinct (writer, history, boundary, fault kind) '
        'executions in which the fault actually fired')
REAL = ['experiment.model.data.Status (update, writeToStream, statusFromFile)', 'experiment.runtime.output.OutputAgent.updateLogs',
        'experiment.runtime.output.StatusMonitor.try_generate_status_details', 'FlowIRExperimentConfiguration.'
        'store_unreplicated_flowir_to_disk / _generate_instance_files', 'WorkflowGraph.instantiate_dowhile_next_iteration',
        'yaml/json codecs, ConfigurationFileToJson', 'real file system under /dev/shm behind the write proxy']
STUB = ['builtins.open (write modes) / os.rename / os.replace / os.remove -> sim.simfs (boundary counting, fault injection)',
        'OutputAgent and StatusMonitor are driven through their real methods on minimal stand-in objects (no threads, no StatusDB)',
        'datetime.now() inside experiment.model.data -> counter clock (so that old/new versions are reproducible)']
ASSUMPTIONS = ['fault model: process death and I/O errors at write boundaries, not power loss (fsync ordering is not part of C14)',
               'un-flushed data of a buffered writer is lost at process death; a torn flush may leave any prefix',
               'free text is generated only for fields that are free text by their setter (error-description, key-output description)']

FAULT_KINDS = ['crash-before', 'crash-after', 'crash-torn', 'eio', 'enospc', 'rename-fail']
TEXTS = ['plain', 'two words', 'a=b', 'tab\there', 'new\nline', 'back\\slash', 'back\\nslash-n', 'café', '你好',
         'percent %s %(x)s', 'quote "x" \'y\'', '# hash ; semi', 'emoji \U0001F600', 'cr\rlf\r\n', 'trail\\', ' lead', 'trail ',
         '', 'key: value', '[section]', 'x' * 300, 'first\n# second line\nthird', 'a\n; b', 'a\n\nb']
STATES = ['running', 'finished', 'failed', 'initialising', 'suspended']


def gen_case(seed, tier, index=0):
    rr = random.Random(seed)
    writer = ['status', 'output', 'details', 'instance', 'instance-loop', 'manifest', 'dosini-instance', 'consolidate'][index % 8]
    n = rr.choice([1, 2, 3, 5, 8])
    ups = []
    for i in range(n):
        if writer == 'status':
            u = {'progress': round(rr.random(), 3), 'stage_state': rr.choice(STATES), 'exp_state': rr.choice(STATES),
                 'stage': rr.choice(['s0', 's1']), 'cost': rr.choice([0, 1, 17]), 'exit': rr.choice(['N/A', 'Success', 'Failed'])}
            if rr.random() < 0.6:
                u['error'] = rr.choice(TEXTS)
            if rr.random() < 0.15:
                u['clear_error'] = True
            ups.append(u)
        elif writer == 'output':
            ups.append({'key': rr.choice(['Out1', 'Energy', 'Final-Structure']), 'location': rr.choice(
                ['stages/stage0/A/out.txt', 'stages/stage1/B/res ult.csv', 'output/x.dat']),
                'description': rr.choice(TEXTS + ['desc']), 'type': rr.choice(['csv', 'xyz', '']),
                'ctime': rr.choice([1.5, 1700000000.25])})
        elif writer == 'details':
            ups.append({'details': {'stages': {'0': {'components': {('c%d' % k): {'state': rr.choice(STATES), 'n': k,
                                                                              'note': rr.choice(TEXTS)} for k in range(rr.randint(1, 4))}}},
                                    'total': rr.random()}})
        elif writer in ('instance', 'manifest'):
            ups.append({'node': rr.choice(['stage0.A', 'stage0.B']), 'key': rr.choice(['#command.arguments', 'myvar']),
                        'value': rr.choice(['hello', 'x y z', '%(myvar)s-1', 'café'])})
        elif writer == 'dosini-instance':
            ups.append({'open': True})
        elif writer == 'consolidate':
            ups.append({'progress': round(rr.random(), 3), 'stage_state': rr.choice(STATES), 'exp_state': rr.choice(STATES)})
        else:
            ups.append({'iterate': True})
    if writer == 'dosini-instance':
        ups = ups[:rr.choice([1, 2])]
    if writer == 'consolidate':
        ups = ups[:rr.choice([1, 2, 3])]
        ups[-1]['consolidate'] = True  # the run ends: the last update is followed by the move of the output directory
    if writer == 'instance-loop':
        ups = ups[:rr.choice([1, 2, 3])]
    return {'writer': writer, 'updates': ups, 'fs_seed': rr.getrandbits(32)}


def shrink_candidates(case):
    ups = case['updates']
    if len(ups) > 1:
        for i in range(len(ups) - 1):
            c = copy.deepcopy(case)
            del c['updates'][i]
            yield c
    for i, u in enumerate(ups):
        for k in ('error', 'description'):
            if u.get(k) not in (None, 'plain'):
                c = copy.deepcopy(case)
                c['updates'][i][k] = 'plain'
                yield c
    if case.get('only') is None and case.get('_violating_variant'):
        c = copy.deepcopy(case)
        c['only'] = case['_violating_variant']
        yield c


# ---------------------------------------------------------------------------------------------------
class _CounterClock:
    """stands for the `datetime` module inside experiment.model.data"""

    def __init__(self, real):
        self._real = real
        self.n = 0
        outer = self

        class _DT(real.datetime):
            @classmethod
            def now(cls, tz=None):
                outer.n += 1
                return real.datetime(2030, 1, 1, 0, 0, 0) + real.timedelta(seconds=outer.n)

        self.datetime = _DT

    def __getattr__(self, name):
        return getattr(self._real, name)


class Workload:
    files = ()

    def setup(self, root):
        raise NotImplementedError

    def apply(self, i, u):
        raise NotImplementedError

    def loads(self, path):
        raise NotImplementedError


class StatusWorkload(Workload):
    def setup(self, root):
        import experiment.model.data as D
        import datetime as _dt
        D.datetime = _CounterClock(_dt)
        self.D = D
        self.path = os.path.join(root, 'status.txt')
        self.files = (self.path,)
        self.st = D.Status(self.path, {}, ['s0', 's1'])
        self.expected = {}

    def apply(self, i, u):
        st = self.st
        st.setStageProgress(u['progress'])
        st.setTotalProgress(u['progress'] / 2)
        st.setStageState(u['stage_state'])
        st.setExperimentState(u['exp_state'])
        st.setCurrentStage(u['stage'])
        st.setCost(u['cost'])
        st.setExitStatus(u['exit'])
        if 'error' in u:
            st.setErrorDescription(u['error'])
            self.expected['error-description'] = u['error']
        if u.get('clear_error'):
            st.removeErrorDescription()
            self.expected.pop('error-description', None)
        self.expected.update({'stage-progress': u['progress'], 'total-progress': u['progress'] / 2, 'stage-state': u['stage_state'],
                              'experiment-state': u['exp_state'], 'current-stage': u['stage'], 'cost': u['cost'],
                              'exit-status': u['exit']})
        return st.update()

    def loads(self, path):
        return self.D.Status.statusFromFile(path)

    def fidelity(self):
        loaded = self.loads(self.path)
        bad = []
        for k, v in self.expected.items():
            got = loaded.data.get(k)
            if k in ('stage-progress', 'total-progress', 'cost', 'current-stage'):
                # values the program computes with (a restarted run goes on from the file): the number, not its text;
                # no stage is None, not the text 'None'
                if got != v or isinstance(got, str) != isinstance(v, str):
                    bad.append((k, v, got))
            elif got != '%s' % (v,):
                bad.append((k, v, got))
        if 'error-description' not in self.expected and 'error-description' in loaded.data:
            bad.append(('error-description', None, loaded.data['error-description']))
        if loaded.data.get('stages') != ['s0', 's1']:
            bad.append(('stages', ['s0', 's1'], loaded.data.get('stages')))
        return bad


class _Obj:
    pass


class OutputWorkload(Workload):
    def setup(self, root):
        import threading
        import logging
        import experiment.runtime.output as O
        import experiment.model.conf as C
        self.O, self.C = O, C
        agent = _Obj()
        agent.experiment = _Obj()
        agent.experiment.instanceDirectory = _Obj()
        agent.experiment.instanceDirectory.mtx_output = threading.RLock()
        agent.outputDir = _Obj()
        agent.outputDir.path = root
        agent.outputFile = os.path.join(root, 'output.txt')
        agent.log = logging.getLogger('c14.output')
        agent.dataReferences = {}
        self.agent = agent
        self.files = (agent.outputFile, os.path.join(root, 'output.json'))
        self.expected = {}

    def apply(self, i, u):
        dr = self.agent.dataReferences.setdefault(u['key'], {'status': {
            'version': 0, 'description': '', 'type': '', 'production': 'yes', 'final': 'no', 'lastLocation': '',
            'creationTime': 0}})
        s = dr['status']
        s['version'] += 1
        s['lastLocation'] = u['location']
        s['description'] = u['description']
        s['type'] = u['type']
        s['creationTime'] = u['ctime']
        s['final'] = 'yes' if i % 2 else 'no'
        self.expected[u['key']] = {'filename': os.path.split(u['location'])[1], 'filepath': u['location'],
                                   'description': u['description'], 'type': u['type'], 'creationtime': '%s' % u['ctime'],
                                   'version': '%d' % s['version'], 'production': 'yes', 'final': s['final']}
        return self.O.OutputAgent.updateLogs(self.agent)

    def loads(self, path):
        if path.endswith('.json'):
            with open(path) as f:
                return json.load(f)
        return json.loads(self.C.ConfigurationFileToJson(path))

    def fidelity(self):
        bad = []
        for path in self.files:
            try:
                loaded = self.loads(path)
            except Exception as e:
                return [(os.path.basename(path), 'loads', repr(e)[:200])]
            for key, fields in self.expected.items():
                got = loaded.get(key)
                if got is None:
                    bad.append((os.path.basename(path), key, 'missing section'))
                    continue
                for fk, fv in fields.items():
                    if got.get(fk) != fv:
                        bad.append((os.path.basename(path) + ':' + fk, fv, got.get(fk)))
        return bad


class DetailsWorkload(Workload):
    def setup(self, root):
        import threading
        import logging
        import experiment.runtime.output as O
        self.O = O
        mon = _Obj()
        mon.mtx_compute_status = threading.RLock()
        mon.log = logging.getLogger('c14.details')
        mon.experiment = _Obj()
        mon.experiment.instanceDirectory = _Obj()
        mon.experiment.instanceDirectory.outputDir = root
        db = _Obj()
        self.current = None
        db.getWorkflowStatus = lambda json_friendly=True: copy.deepcopy(self.current)
        mon._status_database = db
        self.mon = mon
        self.path = os.path.join(root, 'status_details.json')
        self.files = (self.path,)

    def apply(self, i, u):
        self.current = u['details']
        return self.O.StatusMonitor.try_generate_status_details(self.mon)

    def loads(self, path):
        with open(path) as f:
            return json.load(f)

    def fidelity(self):
        got = self.loads(self.path)
        return [] if got == self.current else [('status_details', 'content', 'differs')]


LOOP_FLOWIR = """
components:
- name: A
  command: {executable: echo, arguments: "%(myvar)s"}
  variables: {myvar: one}
- name: B
  command: {executable: echo, arguments: "A:ref"}
  references: [A:ref]
"""

DOWHILE_FLOWIR = """
variables:
  default:
    global:
      targetLoops: 5
components:
- stage: 0
  name: GenerateInput
  command: {executable: echo, arguments: "0"}
- stage: 1
  $import: dowhile.yaml
  name: simple-do-while
  bindings:
    number: stage0.GenerateInput:output
- stage: 2
  name: report
  command: {executable: echo, arguments: "stage1.add:output"}
  references: ["stage1.add:output"]
"""

DOWHILE_DOC = """
type: DoWhile
inputBindings:
  number:
    type: output
loopBindings:
  number: fake_add:output
condition: 'stop/iteration.next:output'
components:
- name: add
  command: {executable: echo, arguments: "number:output"}
  references: ["number:output"]
- name: fake_add
  command: {executable: echo, arguments: "add:output"}
  references: ["add:output"]
- name: stop
  command: {executable: echo, arguments: "fake_add:output %(targetLoops)s", expandArguments: none}
  references: ["fake_add:output"]
"""


class InstanceWorkload(Workload):
    """store_unreplicated_flowir_to_disk / manifest writer on a real experiment instance"""

    def __init__(self, mode):
        self.mode = mode

    def setup(self, root):
        from sim import runtime as R
        import yaml
        self.yaml = yaml
        extra = {}
        flowir = LOOP_FLOWIR
        if self.mode == 'instance-loop':
            flowir = DOWHILE_FLOWIR
            extra = {'conf/dowhile.yaml': DOWHILE_DOC}
        self.exp = R.build_experiment(flowir, root, extra_files=extra)
        self.conf = self.exp.experimentGraph.configuration
        cdir = self.conf.configurationDirectory
        self.instance_file = os.path.join(cdir, 'flowir_instance.yaml')
        self.manifest_file = os.path.join(cdir, 'manifest.yaml')
        self.files = (self.instance_file, self.manifest_file) if self.mode == 'manifest' else (self.instance_file,)
        self.iter = 0

    def apply(self, i, u):
        g = self.exp.experimentGraph
        if self.mode == 'instance-loop':
            F = __import__('experiment.model.frontends.flowir', fromlist=['x']).FlowIR
            dw = g._documents[F.LabelDoWhile]
            name = sorted(dw)[0]
            self.iter += 1
            return g.instantiate_dowhile_next_iteration(dw[name]['document'], self.iter, True)
        g.setOptionForNode(u['node'], u['key'], u['value'])
        if self.mode == 'manifest':
            errs = []
            self.conf._generate_instance_files(True, True, errs)
            if errs:
                raise errs[0]
            return None
        return self.conf.store_unreplicated_flowir_to_disk()

    def rewrite(self):
        """the write step of the last update only (the in-memory description already holds the new content)"""
        if self.mode == 'manifest':
            errs = []
            self.conf._generate_instance_files(True, True, errs)
            if errs:
                raise errs[0]
            return None
        return self.conf.store_unreplicated_flowir_to_disk()

    def loads(self, path):
        with open(path) as f:
            d = self.yaml.safe_load(f)
        if path == self.instance_file and (not isinstance(d, dict) or 'components' not in d):
            raise ValueError('instance description without components')
        if path == self.manifest_file and d is not None and not isinstance(d, dict):
            raise ValueError('manifest is not a mapping')
        return d

    def fidelity(self):
        return []  # content fidelity of the instance description is C07


class DosiniWorkload(Workload):
    """the instance description of an instance created from a DOSINI package (conf/experiment.instance.conf +
    conf/stages.d/stage<N>.instance.conf): it is written again every time the instance is opened"""

    def setup(self, root):
        import experiment.model.storage as S
        import experiment.model.data as D
        self.D = D
        pkg = os.path.join(root, '%s.package' % os.path.basename(root))
        c = os.path.join(pkg, 'conf')
        os.makedirs(os.path.join(c, 'stages.d'))
        os.makedirs(os.path.join(c, 'variables.d'))
        os.makedirs(os.path.join(pkg, 'data'))
        files = {
            'data/in.txt': 'hello\n',
            'conf/experiment.conf': "[DEFAULT]\nname=Test\n[SANDBOX]\n[ENV-MYENV]\nFOO=bar\n",
            'conf/variables.conf': "[GLOBAL]\nn=2\nmsg=hi\n[STAGE1]\nk=1\n",
            'conf/stages.d/stage0.conf': ("[DEFAULT]\njob-type=local\n[Gen]\nexecutable=echo\narguments=%(msg)s data/in.txt:ref\n"
                                          "references=data/in.txt:ref\nenvironment=myenv\nreplicate=%(n)s\n"
                                          "[Agg]\nexecutable=cat\narguments=Gen:ref/out.stdout\nreferences=Gen:ref\naggregate=yes\n"),
            'conf/stages.d/stage1.conf': ("[DEFAULT]\njob-type=local\n[Final]\nexecutable=cat\n"
                                          "arguments=stage0.Agg:output %(k)s\nreferences=stage0.Agg:output\n"),
            'conf/status.conf': "[STAGE0]\nstage-weight=0.5\n[STAGE1]\nstage-weight=0.5\n",
        }
        for rel, text in files.items():
            with open(os.path.join(pkg, rel), 'w') as f:
                f.write(text)
        os.chdir(root)
        ep = S.ExperimentPackage.packageFromLocation(pkg)
        exp = D.Experiment.experimentFromPackage(ep, location=root)
        self.inst = exp.instanceDirectory.location
        cdir = os.path.join(self.inst, 'conf')
        self.files = (os.path.join(cdir, 'experiment.instance.conf'), os.path.join(cdir, 'stages.d', 'stage0.instance.conf'),
                      os.path.join(cdir, 'stages.d', 'stage1.instance.conf'))
        self.components = sorted(exp.experimentGraph.graph.nodes)
        del exp

    def apply(self, i, u):
        # opening the instance with the default arguments stores its description again
        self.D.Experiment.experimentFromInstance(self.inst)

    rewrite = lambda self: self.apply(0, None)

    def loads(self, path):
        import configparser
        cfg = configparser.ConfigParser(interpolation=None)
        with open(path) as f:
            cfg.read_file(f)
        if path.endswith('experiment.instance.conf'):
            if not any(sec.upper().startswith('ENV-') for sec in cfg.sections()):
                raise ValueError('experiment.instance.conf lost its environments')
        elif not cfg.sections():
            raise ValueError('stage file without components')
        return dict((sec, dict(cfg.items(sec, raw=True))) for sec in cfg.sections())

    def fidelity(self):
        return []


class ConsolidateWorkload(Workload):
    """the last update of a run: ExperimentInstanceDirectory.consolidate() moves the output directory (status.txt,
    output.txt, ...), which lived in a shadow directory behind the symbolic link <instance>/output, into the instance"""

    def setup(self, root):
        from sim import runtime as R
        import experiment.model.data as D
        import experiment.model.storage as S
        self.D, self.S = D, S
        import datetime as _dt
        D.datetime = _CounterClock(_dt)  # 'updated' / 'created-on' must be the same in every replay of the history
        self.exp = R.build_experiment(LOOP_FLOWIR, root)
        self.inst = self.exp.instanceDirectory.location
        self.files = (os.path.join(self.inst, 'output', 'status.txt'),)
        self.exp.statusFile.data['created-on'] = '2030-01-01 00:00:00'  # (wall-clock time of this replay otherwise)
        self.n = 0

    def apply(self, i, u):
        st = self.exp.statusFile
        st.setExperimentState(u.get('exp_state', 'finished'))
        st.setStageState(u.get('stage_state', 'finished'))
        st.setTotalProgress(u.get('progress', 1.0))
        st.update()
        if u.get('consolidate'):
            self.exp.instanceDirectory.consolidate()

    def reopen(self):
        # what any later reader does first
        self.S.ExperimentInstanceDirectory(self.inst)

    def loads(self, path):
        st = self.D.Status.statusFromFile(path)
        if 'experiment-state' not in st.data:
            raise ValueError('status without experiment-state')
        return st.data

    def fidelity(self):
        return []


def make_workload(writer):
    if writer == 'consolidate':
        return ConsolidateWorkload()
    if writer == 'dosini-instance':
        return DosiniWorkload()
    if writer == 'status':
        return StatusWorkload()
    if writer == 'output':
        return OutputWorkload()
    if writer == 'details':
        return DetailsWorkload()
    return InstanceWorkload(writer)


def snapshot(files):
    out = {}
    for p in files:
        try:
            with open(p, 'rb') as f:
                out[p] = f.read()
        except FileNotFoundError:
            out[p] = None
    return out


def restore(snap):
    from sim import simfs
    for p, b in snap.items():
        if b is None:
            try:
                simfs._orig_remove(p)
            except FileNotFoundError:
                pass
        else:
            with simfs._orig_open(p, 'wb') as f:
                f.write(b)


def char_class(value):
    """what makes a free-text value special (first match wins); part of the violation signature so that a known
    limit for one class of characters does not hide a failure for another"""
    if not isinstance(value, str):
        return 'typed-value-read-back-as-text'
    if '\r' in value:
        return 'carriage-return'
    if value != value.strip() or value == '':
        return 'outer-blanks-or-empty'
    if any(ln.lstrip().startswith(('#', ';')) for ln in value.split('\n')[1:]):
        return 'comment-like-line-after-newline'
    if '\n' in value:
        return 'newline'
    if '%' in value:
        return 'percent'
    if '\\' in value:
        return 'backslash'
    if any(ord(c) > 127 for c in value):
        return 'non-ascii'
    if any(c in value for c in '#;[]=:'):
        return 'ini-syntax-characters'
    return 'plain'


class _Done(Exception):
    pass


def run_case(case, schedule, opts):
    import hashlib
    from sim import simfs
    key = hashlib.sha256(json.dumps(case, sort_keys=True).encode()).hexdigest()[:12]
    root = '/dev/shm/verif-c14-%s' % key
    shutil.rmtree(root, ignore_errors=True)
    os.makedirs(root)
    result = {'violations': [], 'counters': {}}
    cnt = result['counters']
    viol = result['violations']
    writer = case['writer']
    ups = case['updates']

    def V(sig, detail):
        if not any(v['sig'] == sig for v in viol):
            viol.append({'property': 'C14', 'sig': sig, 'detail': detail})

    def count(k, n=1):
        cnt[k] = cnt.get(k, 0) + n

    fired_variants = 0
    try:
        # ---- fault-free pass: fidelity after every update, boundaries of the last one
        d0 = os.path.join(root, 'ff%s' % key)
        os.makedirs(d0)
        fs = simfs.install(d0, case['fs_seed'])
        w = make_workload(writer)
        fs.enabled = False
        w.setup(d0)
        fs.enabled = True
        old = new = None
        for i, u in enumerate(ups):
            if i == len(ups) - 1:
                old = snapshot(w.files)
                fs.reset()
            try:
                w.apply(i, u)
            except Exception as e:
                free = u.get('error', u.get('description'))
                V('fidelity:%s:update-raised-%s[%s]' % (writer, type(e).__name__, char_class(free)),
                  {'update': i, 'error': repr(e)[:300], 'history': ups[:i + 1]})
                old = None
                break
            try:
                bad = w.fidelity()
            except Exception as e:
                bad = [('loader', 'raised', repr(e)[:300])]
            if bad:
                field = str(bad[0][0])
                V('fidelity:%s:%s:read-back-differs[%s]' % (writer, field, char_class(bad[0][1])),
                  {'update': i, 'field': field, 'written': bad[0][1], 'read_back': bad[0][2], 'history': ups[:i + 1]})
                old = None
                break
            count('probe.fidelity_checks')
        if viol:
            raise _Done()
        new = snapshot(w.files)
        nb = fs.count
        blog = list(fs.log)
        count('probe.boundaries_in_last_update', nb)
        # ---- enumeration of (boundary, kind) on the last update
        maxb = int(opts.get('max_boundaries', 40))
        if writer == 'instance-loop':
            # every variant of this writer rebuilds the experiment and replays the earlier iterations (~0.5 s each)
            maxb = min(maxb, int(opts.get('max_boundaries_slow', 40)))
        ks = list(range(1, nb + 1))
        sampled = False
        if nb > maxb:
            rr = random.Random(case['fs_seed'])
            keep = set(ks[:6] + ks[-6:])
            rest = [k for k in ks if k not in keep]
            rr.shuffle(rest)
            keep.update(rest[:maxb - len(keep)])
            ks = sorted(keep)
            sampled = True
        variants = [(k, kind) for k in ks for kind in FAULT_KINDS]
        if case.get('only'):
            variants = [tuple(case['only'])]
        reuse = (isinstance(w, InstanceWorkload) and writer != 'instance-loop') or isinstance(w, DosiniWorkload)
        for vi, (k, kind) in enumerate(variants):
            bk = blog[k - 1][1]
            if kind == 'rename-fail' and bk not in ('rename', 'replace'):
                continue
            if kind in ('eio', 'enospc', 'crash-torn') and bk in ('rename', 'replace', 'remove'):
                continue
            if reuse:
                restore(old)
                fs.reset(arm=(k, kind), seed=case['fs_seed'] + vi)
                target = w
                runner = w.rewrite
            else:
                dv = os.path.join(root, 'v%d%s' % (vi, key))
                os.makedirs(dv)
                fs = simfs.install(dv, case['fs_seed'] + vi)
                target = make_workload(writer)
                fs.enabled = False
                target.setup(dv)
                fs.enabled = True
                for i, u in enumerate(ups[:-1]):
                    target.apply(i, u)
                fs.reset(arm=(k, kind), seed=case['fs_seed'] + vi)
                runner = (lambda t=target: t.apply(len(ups) - 1, ups[-1]))
            outcome = 'returned'
            try:
                runner()
            except simfs.SimCrash:
                outcome = 'crashed'
            except Exception as e:
                outcome = 'raised:%s' % type(e).__name__
            fired = fs.fired
            fs.armed = None
            for p in list(fs.open_proxies):
                if outcome == 'crashed':
                    p.abandon()
            if not fired:
                count('probe.fault_not_reached')
                continue
            fired_variants += 1
            count('fault.%s' % kind)
            count('probe.outcome.%s' % outcome.split(':')[0])
            # (a reader opens the instance before it reads any state file: workloads may model that step)
            if hasattr(target, 'reopen'):
                fs.enabled = False
                try:
                    target.reopen()
                except Exception as e:
                    V('atomicity:%s:instance-cannot-be-opened-after-%s' % (writer, 'crash' if outcome == 'crashed' else 'io-error'),
                      {'boundary': k, 'fault': kind, 'error': repr(e)[:300]})
                fs.enabled = True
            # ---- oracle: every state file is the complete previous or the complete new version, and loads
            if reuse:
                cur = snapshot(w.files)
                o, n = old, new
                names = {p: p for p in w.files}
            else:
                cur = snapshot(target.files)
                # map by basename to the fault-free run's snapshots
                byname_old = {os.path.basename(p): b for p, b in old.items()}
                byname_new = {os.path.basename(p): b for p, b in new.items()}
                o = {p: byname_old[os.path.basename(p)] for p in target.files}
                n = {p: byname_new[os.path.basename(p)] for p in target.files}
            fs.enabled = False
            for p in cur:
                base = os.path.basename(p)
                if o[p] is None and cur[p] is not None and cur[p] != n[p]:
                    # nothing existed before: a complete, loadable *empty* document stands for "no previous version"
                    try:
                        if target.loads(p) in ({}, None, []):
                            count('probe.empty_document_for_missing_previous_version')
                            continue
                    except Exception:
                        pass
                if cur[p] != o[p] and cur[p] != n[p]:
                    what = 'missing' if cur[p] is None else ('empty' if cur[p] == b'' else 'partial-or-mixed')
                    cls = 'after-crash' if outcome == 'crashed' else 'after-io-error'
                    V('atomicity:%s:%s:%s-%s' % (writer, base, what, cls),
                      {'boundary': k, 'boundary_kind': bk, 'fault': kind, 'outcome': outcome, 'file': base,
                       'size': None if cur[p] is None else len(cur[p]),
                       'old_size': None if o[p] is None else len(o[p]), 'new_size': None if n[p] is None else len(n[p]),
                       'boundaries': nb, 'variant': [k, kind]})
                    case['_violating_variant'] = [k, kind]
                elif cur[p] is not None:
                    try:
                        target.loads(p)
                        count('probe.loaded_after_fault')
                    except Exception as e:
                        V('atomicity:%s:%s:does-not-load' % (writer, base), {'boundary': k, 'fault': kind, 'error': repr(e)[:300]})
            # ---- after a handled I/O error the writer is still usable
            if outcome == 'returned' and kind in ('eio', 'enospc', 'rename-fail') and not reuse:
                try:
                    target.apply(len(ups), ups[-1])
                    bad = target.fidelity()
                    if bad:
                        V('recovery:%s:update-after-io-error-not-read-back' % writer, {'fault': kind, 'boundary': k, 'bad': bad[:2]})
                    count('probe.update_after_io_error_ok')
                except Exception as e:
                    V('recovery:%s:update-after-io-error-raised' % writer, {'fault': kind, 'boundary': k, 'error': repr(e)[:300]})
            fs.enabled = True
            if not reuse:
                shutil.rmtree(dv, ignore_errors=True)
        count('probe.variants_fired', fired_variants)
        if sampled:
            count('probe.boundaries_sampled_down')
    except _Done:
        pass
    finally:
        simfs.FS = None
        shutil.rmtree(root, ignore_errors=True)
        import glob
        for d in glob.glob('/tmp/chpc-*-shadow/ff%s-*' % key) + glob.glob('/tmp/chpc-*-shadow/v[0-9]*%s-*' % key):
            shutil.rmtree(d, ignore_errors=True)
    h = hashlib.sha256(json.dumps([writer, ups], sort_keys=True).encode()).hexdigest()[:16]
    result['digest'] = result['abstract'] = h
    result['distinct_units'] = fired_variants
    result['sample'] = {'writer': writer, 'updates': ups[:4]}
    return result
