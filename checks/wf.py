"""Shared E1 workflow run for C01 / C02 / C12: one simulated execution of a generated multi-stage workflow under the
real Controller, judged by three independent oracles over the recorded history."""
import copy
import json
import random

from checks import common
from sim import programs

BOOT = {'kernel': True}
LEVEL = 'exploration'
REAL = common.REAL_E1
STUB = common.STUB_E1

FINAL = ('finished', 'failed', 'component_shutdown')


# ----------------------------------------------------------------------------------------------------
# generators
def gen_case_dag(seed, tier, index=0, restart_bias=False):
    rr = random.Random(seed)
    comps, nstages = programs.gen_dag(rr, max_stages=3, max_per_stage=rr.choice([2, 3, 4]))
    repl = rr.choice([2, 2, 3])
    for c in comps:
        if c.get('replicate'):
            c['replicate'] = repl
    plan = {}
    fail_p = rr.choice([0.0, 0.1, 0.25, 0.4])
    tie = rr.random() < 0.4  # equal durations for siblings: exact ties are valuable
    durs = [rr.choice([0.3, 2.0, 8.0, 20.0])] if tie else [0.3, 2.0, 8.0, 20.0]
    hook = {}
    use_hook_file = rr.random() < 0.3
    # "fast verdict" profile: producers reach FAILED / SHUTDOWN within a scheduler period (tiny run times, no engine
    # launch delay, exits whose verdict needs no 25 s stability sleep: Killed, Cancelled, ResourceExhausted with
    # maxRestarts 0), so that a final state can land between two scheduler passes and before finishedCheck()
    fast = rr.random() < 0.3
    observed = set()
    for c in comps:
        if c.get('repeat'):
            for r in c.get('refs') or []:
                observed.add(r.split('.')[-1])
    if fast:
        durs = [0.05, 0.3]
    for c in comps:
        name = c['name']
        if fast and (name in observed or rr.random() < 0.3) and not c.get('repeat'):
            c['maxRestarts'] = 0
            if rr.random() < 0.4:
                c['shutdownOn'] = rr.sample(['Killed', 'Cancelled', 'ResourceExhausted'], rr.choice([1, 2]))
        if rr.random() < (0.6 if restart_bias else 0.15):
            programs.gen_restart_attrs(rr, c)
        nexec = rr.choice([1, 2, 4, 8]) if not restart_bias else rr.choice([4, 8, 12])
        lf = rr.choice([0.0, 0.0, 0.1, 0.5]) if restart_bias else rr.choice([0.0, 0.0, 0.0, 0.1])
        exits = list(programs.EXITS_FAIL) + (['ResourceExhausted'] * 4 if restart_bias else [])
        if rr.random() < 0.1:
            exits += ['Killed', 'Cancelled']
        pfail = min(0.9, fail_p + (0.4 if restart_bias else 0.0))
        if fast and c.get('maxRestarts') == 0 and not c.get('repeat'):
            exits = ['Killed', 'Cancelled', 'ResourceExhausted']
            pfail = 0.7 if name in observed else 0.4
        plan[name] = {'default': programs.gen_exec(rr, 0.0, durs),
                      'execs': [programs.gen_exec(rr, pfail, durs, exits, lf) for _ in range(nexec)]}
        if c.get('replicate') and rr.random() < 0.6:
            # replicas that fare differently (exact key = name + replica index): partial shutdown / failure of a replicated set
            for ri in range(repl):
                plan['%s%d' % (name, ri)] = {'default': programs.gen_exec(rr, 0.0, durs),
                                             'execs': [programs.gen_exec(rr, min(0.9, pfail + 0.3), durs, exits, lf)
                                                       for _ in range(rr.choice([1, 2, 4]))]}
        if c.get('repeat'):
            plan[name]['default']['dur'] = rr.choice([0.3, 2.0, 5.0])
            for e in plan[name]['execs']:
                e['dur'] = rr.choice([0.3, 2.0, 5.0])
        if rr.random() < 0.5:
            plan[name]['default']['outs'] = [[0.1, 'data.txt', 'x\n']]
        if c.get('refs') and not c.get('aggregate') and not c.get('replicate') and rr.random() < 0.08:
            c['aggregate'] = True  # legal but unusual: an aggregating component none of whose producers is replicated
        if c.get('restartHookFile') or use_hook_file:
            hook[name] = [rr.choice(['Possible', 'Possible', 'Possible', 'HookNotAvailable', 'NotRequired', 'NotPossible',
                                     'HookFailed', 'raise', 'ioerror', 'true', 'false', 'junk', 'junkstr', 'slowPossible', 'slowPossible'])
                          for _ in range(rr.choice([1, 3, 6]))]
    stage_opts = {}
    for s in range(nstages):
        if rr.random() < 0.25:
            stage_opts[str(s)] = {'continue-on-error': 1}
    knobs = common.knobs_from(rr, tier)
    knobs['workers'] = rr.choice([None, None, 1, 2, 4])
    if fast:
        knobs['launch_delay'] = 0.0
    return {'comps': comps, 'stage_opts': stage_opts, 'plan': plan, 'hook': hook, 'hook_file': use_hook_file,
            'knobs': knobs, 'sched_seed': rr.getrandbits(48), 'pauses': common.gen_pauses(rr, 0.1),
            'slow_wake_p': rr.choice([0.0, 0.3]), 'instability': common.gen_instability(rr, 0.12),
            # the package's stage-completion hook (hooks/status.py IsStageComplete) answers True from this virtual time
            # on: the controller then stops whatever is left of the stage
            'complete_at': rr.choice([0.5, 3.0, 8.0, 20.0, 45.0]) if rr.random() < 0.08 else None}


def gen_case_observer_race(seed, tier, index=0):
    """small profile aimed at one window: a same-stage subject reaches FAILED / SHUTDOWN / FINISHED after it was
    launched but before its not-yet-submitted observer is scheduled (and before finishedCheck() recorded it)"""
    rr = random.Random(seed)
    comps = []
    plan = {}
    nsub = rr.choice([1, 1, 2])
    for i in range(nsub):
        name = 'ST'[i]
        c = {'name': name, 'stage': 0, 'refs': [], 'maxRestarts': 0}
        if rr.random() < 0.5:
            c['shutdownOn'] = rr.sample(['Killed', 'Cancelled', 'ResourceExhausted'], rr.choice([1, 2, 3]))
        if rr.random() < 0.25:
            c['replicate'] = 2
        comps.append(c)
        plan[name] = {'default': {'dur': 0.05, 'exit': 'Success'},
                      'execs': [{'dur': rr.choice([0.01, 0.05, 0.3, 2.0]),
                                 'exit': rr.choice(['Killed', 'Cancelled', 'ResourceExhausted', 'Success'])}]}
        if rr.random() < 0.3:
            plan[name]['execs'][0]['launch_fail'] = rr.choice(['valueerror', 'joblaunch'])
    obs = {'name': 'O', 'stage': 0, 'refs': [c['name'] for c in comps],
           'repeat': {'interval': rr.choice([1, 3]), 'retries': rr.choice([None, 0, 1])}}
    if any(c.get('replicate') for c in comps) and rr.random() < 0.5:
        obs['aggregate'] = True
    comps.append(obs)
    plan['O'] = {'default': {'dur': 0.3, 'exit': 'Success'}}
    if rr.random() < 0.4:
        comps.append({'name': 'N', 'stage': 0, 'refs': ['O'] if rr.random() < 0.5 else [comps[0]['name']]})
        plan['N'] = {'default': {'dur': 0.3, 'exit': 'Success'}}
    knobs = common.knobs_from(rr, tier)
    knobs['launch_delay'] = 0.0
    knobs['stall_p'] = rr.choice([0.0, 0.002, 0.01, 0.03])
    knobs['workers'] = rr.choice([None, 1, 2])
    return {'comps': comps, 'stage_opts': {}, 'plan': plan, 'hook': {}, 'hook_file': False, 'knobs': knobs,
            'sched_seed': rr.getrandbits(48)}


def gen_case_busy_pool(seed, tier, index=0):
    """small profile aimed at one window: the controller's notification pool has one worker and that worker is held up
    (a component whose exit needs the stability wait, or a period of file-system instability) while other components
    die - so several notifications of the same component queue up and are then handled back to back"""
    rr = random.Random(seed)
    comps, plan = [], {}
    for i in range(rr.choice([1, 1, 2])):
        name = 'AB'[i]
        comps.append({'name': name, 'stage': 0, 'refs': []})
        plan[name] = {'default': {'dur': rr.choice([2.0, 8.0]), 'exit': 'Success'},
                      'execs': [{'dur': rr.choice([0.3, 2.0]), 'exit': rr.choice(['ResourceExhausted', 'SystemIssue', 'UnknownIssue', 'Killed'])}
                                for _ in range(rr.choice([1, 2]))]}
    has_producer = rr.random() < 0.25
    comps.append({'name': 'C', 'stage': 0, 'refs': [comps[0]['name']] if has_producer else [],
                  'repeat': {'interval': rr.choice([1, 3]), 'retries': rr.choice([0, 0, 0, 1])}})
    retries = comps[-1]['repeat']['retries']
    plan['C'] = {'default': {'dur': rr.choice([0.3, 2.0, 5.0]), 'exit': 'Success'},
                 # mostly: exactly as many failures as it takes for the engine to give up with ResourceExhausted
                 'execs': [{'dur': rr.choice([0.3, 2.0]), 'exit': 'ResourceExhausted'}
                           for _ in range(retries + 1 if rr.random() < 0.7 else rr.choice([1, 2, 3]))]
                 + [{'dur': rr.choice([0.3, 5.0]), 'exit': rr.choice(['Success', 'Success', 'KnownIssue', 'ResourceExhausted'])}]}
    if rr.random() < 0.3:
        comps.append({'name': 'N', 'stage': 0, 'refs': [rr.choice(['C', comps[0]['name']])]})
        plan['N'] = {'default': {'dur': 0.3, 'exit': 'Success'}}
    knobs = common.knobs_from(rr, tier)
    knobs['workers'] = 1
    knobs['launch_delay'] = rr.choice([0.0, 0.0, knobs.get('launch_delay', 0.0)])
    if rr.random() < 0.85:
        # notifications arrive late and in bursts when the scheduler that delivers them is held up
        knobs['slow_pool'] = [rr.choice([1, 2, 3, 3, 3, 4, 5, 6, 7, 7, 7]), rr.choice([0.1, 0.2, 0.5])]
        knobs['preempt_p'] = rr.choice([0.0, 0.0, 0.0, knobs['preempt_p']])
    return {'comps': comps, 'stage_opts': {}, 'plan': plan, 'hook': {}, 'hook_file': False, 'knobs': knobs,
            'sched_seed': rr.getrandbits(48), 'pauses': [], 'slow_wake_p': 0.0,
            'instability': [rr.choice([0.0, 1.0, 5.0])] if rr.random() < 0.85 else [], 'complete_at': None}


def gen_case_repeating_restart(seed, tier, index=0):
    """C12 sub-profile: the single restart of a repeating engine whose last task exits ResourceExhausted, with restart
    submissions that fail quickly, slowly (long enough for 'alive' to be published) or succeed"""
    rr = random.Random(seed)
    comps = [{'name': 'P', 'stage': 0, 'refs': []},
             {'name': 'O', 'stage': 0, 'refs': ['P'], 'repeat': {'interval': rr.choice([1, 3]), 'retries': rr.choice([0, 0, 1])}}]
    if rr.random() < 0.3:
        comps[1]['shutdownOn'] = ['ResourceExhausted']
    plan = {'P': {'default': {'dur': rr.choice([0.3, 2.0, 6.0]), 'exit': 'Success', 'outs': [[0.1, 'data.txt', 'x\n']]}}}
    nre = rr.choice([1, 2, 4])
    execs = [{'dur': rr.choice([0.3, 2.0]), 'exit': 'ResourceExhausted'} for _ in range(nre)]
    for _ in range(rr.choice([0, 1, 2, 4])):
        e = {'dur': 0.3, 'exit': 'Success', 'launch_fail': rr.choice(['oserror', 'joblaunch'])}
        if rr.random() < 0.7:
            e['launch_fail_delay'] = rr.choice([6.0, 12.0])
        execs.append(e)
    execs.append({'dur': 0.3, 'exit': rr.choice(['Success', 'ResourceExhausted', 'KnownIssue'])})
    plan['O'] = {'default': {'dur': 0.3, 'exit': 'Success'}, 'execs': execs}
    knobs = common.knobs_from(rr, tier)
    knobs['workers'] = None
    return {'comps': comps, 'stage_opts': {}, 'plan': plan, 'hook': {}, 'hook_file': False, 'knobs': knobs,
            'sched_seed': rr.getrandbits(48)}


def gen_case_stop_during_restart(seed, tier, index=0):
    """C12 sub-profile aimed at one window: a component is being restarted (postMortemCheck -> Engine.restart) at the very
    moment a sibling's unrecoverable exit makes the controller stop the stage (finish(SHUTDOWN) on every component).
    Siblings end in the same instant; the functions of the restart / finish / shutdown path are this run's focus set"""
    rr = random.Random(seed)
    d = rr.choice([0.3, 2.0, 6.0])
    nrest = rr.choice([1, 1, 2])
    comps, plan, hook = [], {}, {}
    for i in range(nrest):
        name = 'AB'[i]
        c = {'name': name, 'stage': 0, 'refs': []}
        if rr.random() < 0.3:
            c['restartHookFile'] = 'myhook.py'
            c['restartHookOn'] = ['ResourceExhausted']
            hook[name] = [rr.choice(['Possible', 'Possible', 'HookNotAvailable', 'slowPossible'])]
        comps.append(c)
        plan[name] = {'default': {'dur': 8.0, 'exit': 'Success'},
                      'execs': [{'dur': d, 'exit': 'ResourceExhausted'} for _ in range(rr.choice([1, 2]))]}
    comps.append({'name': 'F', 'stage': 0, 'refs': []})
    # F fails for good when the others exit for the 1st (or 2nd) time - or a little later
    plan['F'] = {'default': {'dur': 1.0, 'exit': 'Success'},
                 'execs': [{'dur': d * rr.choice([1, 1, 1, 2]) + rr.choice([0.0, 0.0, 0.0, 1.0, 5.0]),
                            'exit': rr.choice(['KnownIssue', 'KnownIssue', 'UnknownIssue', 'Killed'])}]}
    knobs = common.knobs_from(rr, tier)
    knobs['workers'] = rr.choice([None, 2, 4])
    knobs['launch_delay'] = 0.0
    knobs['stall_p'] = 0.0
    knobs['focus'] = [sorted(rr.sample(['restart', '_restartComponent', 'postMortemCheck', '_finish', 'finish', 'shutdown',
                                        '_stopComponents', 'finishedCheck', 'run', 'isAlive', 'TransitionComponentToFinalState'],
                                       rr.choice([2, 3, 4]))), rr.choice([0.1, 0.3, 0.6])]
    return {'comps': comps, 'stage_opts': {}, 'plan': plan, 'hook': hook, 'hook_file': bool(hook), 'knobs': knobs,
            'sched_seed': rr.getrandbits(48)}


def gen_case_restart(seed, tier, index=0):
    """C12 profile: 1-3 components, long failure sequences, every restart attribute combination"""
    rr = random.Random(seed)
    n = rr.choice([1, 1, 2, 3])
    comps = []
    plan = {}
    hook = {}
    use_hook_file = rr.random() < 0.5
    all_sim = rr.random() < 0.1  # the simulator backend cannot be mixed with real ones
    for i in range(n):
        name = 'ABC'[i]
        c = {'name': name, 'stage': 0, 'refs': []}
        if i > 0 and rr.random() < 0.5:
            c['refs'] = ['ABC'[rr.randrange(i)]]
        if c['refs'] and rr.random() < 0.3:
            c['repeat'] = {'interval': rr.choice([1, 3]), 'retries': rr.choice([None, 0, 1])}
        programs.gen_restart_attrs(rr, c)
        if rr.random() < 0.3:
            c['shutdownOn'] = rr.sample(['KnownIssue', 'ResourceExhausted', 'SystemIssue'], 1)
        if all_sim:
            c['backend'] = 'simulator'
        comps.append(c)
        on = c.get('restartHookOn')
        on = ['ResourceExhausted'] if on is None else on
        pool = list(on) * 3 + ['KnownIssue', 'UnknownIssue', 'SystemIssue', 'ResourceExhausted', 'Killed', 'Cancelled',
                               'SubmissionFailed']
        lf = rr.choice([0.0, 0.0, 0.2, 0.7, 1.0])
        nexec = rr.choice([2, 6, 12])
        execs = []
        for _ in range(nexec):
            e = {'dur': rr.choice([0.3, 2.0, 6.0]), 'exit': rr.choice(pool) if rr.random() < 0.85 else 'Success'}
            if e['exit'] == 'SubmissionFailed' and rr.random() < 0.5:
                e['exit'] = 'Success'
                e['launch_fail'] = 'joblaunch'
            elif e['exit'] == 'SubmissionFailed':
                pass  # reported by the task itself some time after it was accepted (image pull, scheduler rejection)
            elif rr.random() < lf:
                e['launch_fail'] = rr.choice(['oserror', 'joblaunch', 'joblaunch', 'valueerror'])
            if e.get('launch_fail') and rr.random() < 0.35:
                e['launch_fail_delay'] = rr.choice([2.0, 6.0, 12.0])
            execs.append(e)
        if rr.random() < 0.4 and on:
            # a streak: the same restartable exit many times in a row (what exhausts a restart budget), then success
            r = rr.choice(list(on) + ['SubmissionFailed'])
            streak = rr.choice([3, 4, 5, 7, 12])
            by_task = rr.random() < 0.5  # a failed submission reported by the accepted task instead of the backend call
            execs = [({'dur': 0.3, 'exit': 'Success', 'launch_fail': 'joblaunch'} if (r == 'SubmissionFailed' and not by_task)
                      else {'dur': rr.choice([0.3, 2.0]), 'exit': r}) for _ in range(streak)]
        plan[name] = {'default': {'dur': 1.0, 'exit': 'Success'}, 'execs': execs}
        if c.get('restartHookFile') or use_hook_file:
            hook[name] = [rr.choice(['Possible', 'Possible', 'Possible', 'Possible', 'HookNotAvailable', 'NotRequired',
                                     'NotPossible', 'HookFailed', 'raise', 'ioerror', 'true', 'false', 'junk', 'junkstr', 'slowPossible', 'slowPossible'])
                          for _ in range(rr.choice([1, 4, 12]))]
    knobs = common.knobs_from(rr, tier)
    knobs['workers'] = rr.choice([None, None, 2])
    return {'comps': comps, 'stage_opts': {}, 'plan': plan, 'hook': hook, 'hook_file': use_hook_file,
            'knobs': knobs, 'sched_seed': rr.getrandbits(48),
            # the run is a restart of its (only) stage: elaunch --restart 0 consults the restart policy for the
            # components of that stage instead of simply running them
            'restart_sources': rr.random() < 0.15}


def shrink_candidates(case):
    if case.get('complete_at') is not None:
        c = copy.deepcopy(case)
        c['complete_at'] = None
        yield c
    if case.get('instability'):
        c = copy.deepcopy(case)
        c['instability'] = []
        yield c
    if case.get('pauses'):
        c = copy.deepcopy(case)
        c['pauses'] = []
        yield c
    if case.get('pause_on_condition'):
        c = copy.deepcopy(case)
        c['pause_on_condition'] = None
        yield c
    comps = case['comps']
    # drop a component that nobody references (and fix nothing else)
    referenced = set()
    for c in comps:
        for r in c.get('refs') or []:
            referenced.add(r.split('.')[-1])
    for i in range(len(comps) - 1, -1, -1):
        if comps[i]['name'] not in referenced and len(comps) > 1:
            c = copy.deepcopy(case)
            nm = c['comps'][i]['name']
            del c['comps'][i]
            c['plan'].pop(nm, None)
            c['hook'].pop(nm, None)
            # stages must stay contiguous
            stages = sorted(set(x.get('stage', 0) for x in c['comps']))
            if stages == list(range(len(stages))):
                yield c
    # drop a reference
    for i, comp in enumerate(comps):
        for j in range(len(comp.get('refs') or [])):
            c = copy.deepcopy(case)
            del c['comps'][i]['refs'][j]
            if not c['comps'][i]['refs']:
                c['comps'][i].pop('repeat', None)
                c['comps'][i].pop('aggregate', None)
            yield c
    # knobs
    for k, v in (('trace', 'none'), ('pool_delay_p', 0.0), ('stall_p', 0.0), ('preempt_p', 0.0), ('launch_delay', 5.0), ('workers', None)):
        if case['knobs'].get(k) != v:
            c = copy.deepcopy(case)
            c['knobs'][k] = v
            yield c
    # attributes back to defaults
    for i, comp in enumerate(comps):
        for a in ('replicate', 'aggregate', 'repeat', 'shutdownOn', 'restartHookOn', 'maxRestarts', 'restartHookFile',
                  'variables', 'backend'):
            if comp.get(a) not in (None, False, [], {}) or (a == 'restartHookFile' and comp.get(a) == ''):
                if a == 'aggregate':
                    continue
                c = copy.deepcopy(case)
                c['comps'][i].pop(a, None)
                yield c
    if case.get('stage_opts'):
        c = copy.deepcopy(case)
        c['stage_opts'] = {}
        yield c
    # fault plan: exits to Success, drop launch failures, shorten exec lists
    for name, e in case['plan'].items():
        execs = e.get('execs') or []
        if execs:
            c = copy.deepcopy(case)
            c['plan'][name]['execs'] = execs[:-1]
            yield c
        for idx, ex in enumerate(execs):
            if ex.get('launch_fail'):
                c = copy.deepcopy(case)
                del c['plan'][name]['execs'][idx]['launch_fail']
                yield c
            if ex.get('exit', 'Success') != 'Success':
                c = copy.deepcopy(case)
                c['plan'][name]['execs'][idx]['exit'] = 'Success'
                yield c
    for name, lst in (case.get('hook') or {}).items():
        if len(lst) > 1:
            c = copy.deepcopy(case)
            c['hook'][name] = lst[:-1]
            yield c
        if any(a != 'Possible' for a in lst):
            c = copy.deepcopy(case)
            c['hook'][name] = ['Possible'] * len(lst)
            yield c


# ----------------------------------------------------------------------------------------------------
def node_table(controller):
    """expanded graph as the models see it (taken from the loaded experiment: expansion is not C01/C02's business)"""
    g = controller.graph
    nodes = {}
    for n, data in g.nodes(data=True):
        spec = data['componentSpecification']
        wa = spec.workflowAttributes
        nodes[n] = {
            'stage': data['stageIndex'],
            'preds': sorted(g.predecessors(n)),
            'succs': sorted(g.successors(n)),
            'repeat': bool(wa['isRepeat']),
            'aggregate': bool(spec.isAggregating),
            'replicating': bool(spec.isReplicating),
            'shutdownOn': list(wa.get('shutdownOn') or []),
            'restartHookOn': list(wa.get('restartHookOn') or []),
            'maxRestarts': wa.get('maxRestarts'),
            'restartHookFile': wa.get('restartHookFile'),
            'retries': wa.get('repeatRetries'),
            'backend': spec.resourceManager['config']['backend'],
        }
    return nodes


def topo(nodes):
    order, seen = [], set()

    def visit(n):
        if n in seen:
            return
        seen.add(n)
        for p in nodes[n]['preds']:
            visit(p)
        order.append(n)

    for n in sorted(nodes):
        visit(n)
    return order


def history_of(ev):
    """per component: ordered execution records [{'n', 'launch_seq', 'reason', 'exit_seq'}] incl. failed launches"""
    h = {}
    for e in ev:
        seq, t, kind, ref, data = e
        if kind == 'launch':
            h.setdefault(ref, []).append({'n': data['n'], 'launch_seq': seq, 't': t, 'reason': None, 'exit_seq': None})
        elif kind == 'launch-fail':
            reason = 'SubmissionFailed' if data['how'] in ('oserror', 'joblaunch') else 'UnknownIssue'
            h.setdefault(ref, []).append({'n': data['n'], 'launch_seq': seq, 't': t, 'reason': reason, 'exit_seq': seq,
                                          'launch_failed': True})
        elif kind == 'exit':
            for x in h.get(ref, []):
                if x['n'] == data['n']:
                    x['reason'] = data['reason']
                    x['exit_seq'] = seq
    return h


def externally_stopped(ev):
    """components that the controller stopped (finish() that is not the verdict of the component's own
    postMortemCheck): while running, or while their own post-mortem check was still deliberating"""
    out = {}
    for e in ev:
        if e[2] == 'finish' and e[3] not in out and (e[4]['state'] == 'running' or
                                                    (e[4]['state'] in ('checking', 'suspended') and not e[4].get('via_pm'))):
            out[e[3]] = e[0]
    return out


def effective_exit(node, hist):
    """exit reason of the component as the documented rules see it, from the observed executions"""
    if node['repeat']:
        # a repeating engine reports the exit of the last task it actually ran (a failed launch leaves none behind);
        # one that stops without ever running a task (nothing to consume, retries used up - C13's business) reports Success
        ran = [x for x in (hist or []) if not x.get('launch_failed')]
        if not ran:
            return 'Success'
        if ran[-1]['reason'] is None:
            return None
        return 'ResourceExhausted' if ran[-1]['reason'] == 'ResourceExhausted' else 'Success'
    if not hist:
        return None
    last = hist[-1]
    if last['reason'] is None:
        return None
    return last['reason']


def rule_state(node, reason):
    if reason == 'Success':
        return 'finished'
    if reason in node['shutdownOn']:
        return 'component_shutdown'
    return 'failed'


# ----------------------------------------------------------------------------------------------------
def oracle_c01(nodes, ev, viol):
    final_at = {}  # ref -> seq of first final controllerState
    final_state = {}
    for e in ev:
        if e[2] == 'ctlstate' and e[4]['new'] in FINAL and e[3] not in final_at:
            final_at[e[3]] = e[0]
            final_state[e[3]] = e[4]['new']
    sched_starts = [e[0] for e in ev if e[2] == 'sched-start']
    finish_called_at = {}
    for e in ev:
        if e[2] == 'finish':
            finish_called_at.setdefault(e[3], e[0])
    # finishedCheck(p) runs under the controller's comp_lock, which a scheduler pass holds from its decisions to the
    # submissions that follow them: a finishedCheck that *returned* before a submission was serialised before the
    # whole pass, so the pass has seen p's final state
    recorded_at = {}
    for e in ev:
        if e[2] == 'finishedCheck-end':
            recorded_at.setdefault(e[3], e[0])
    submitted_at = {}
    for e in ev:
        if e[2] != 'submit':
            continue
        seq, t, _, ref, data = e
        node = nodes.get(ref)
        if node is None:
            continue
        submitted_at.setdefault(ref, seq)
        decided = max([s for s in sched_starts if s < seq] or [0])
        for p, (pstate, psub) in data['preds'].items():
            pn = nodes.get(p)
            same_stage_observer = node['repeat'] and pn is not None and pn['stage'] == node['stage']
            if same_stage_observer:
                # the exception of the statement: the subject has been launched (or is final already). A subject that was
                # put down before it was ever submitted has not been launched
                if not (pstate in FINAL or psub):
                    viol.append({'property': 'C01', 'sig': 'i:observer-submitted-before-subject-launched',
                                 'detail': {'consumer': ref, 'producer': p, 'producer_state': pstate}})
                # failed/shut-down subject: judged at the scheduling decision, not at the submission that follows it
                pf = final_at.get(p)
                pr = recorded_at.get(p)
                if pf is not None and pr is not None and pr < seq and not pf < decided:
                    if final_state[p] == 'failed' or (final_state[p] == 'component_shutdown' and not node['aggregate']):
                        viol.append({'property': 'C01', 'sig': 'iii/iv:observer-submitted-after-controller-recorded-%s-subject'
                                                               % ('failed' if final_state[p] == 'failed' else 'shutdown'),
                                     'detail': {'consumer': ref, 'producer': p, 'recorded_seq': pr, 'submit_seq': seq}})
                if pf is not None and pf < decided:
                    if final_state[p] == 'failed':
                        viol.append({'property': 'C01', 'sig': 'iii:launched-consumer-of-failed-producer',
                                     'detail': {'consumer': ref, 'producer': p, 'observer': True}})
                    # a repeating consumer of a shut-down same-stage subject: the statement's exception makes the
                    # launch decision legitimate while the subject is alive; after it, rule (iv) applies
                    if final_state[p] == 'component_shutdown' and not node['aggregate']:
                        viol.append({'property': 'C01', 'sig': 'iv:launched-consumer-of-shutdown-producer',
                                     'detail': {'consumer': ref, 'producer': p, 'observer': True}})
            else:
                if pstate not in FINAL:
                    viol.append({'property': 'C01', 'sig': 'ii:submitted-before-producer-final',
                                 'detail': {'consumer': ref, 'producer': p, 'producer_state': pstate, 'seq': seq}})
                if pstate == 'failed':
                    viol.append({'property': 'C01', 'sig': 'iii:launched-consumer-of-failed-producer',
                                 'detail': {'consumer': ref, 'producer': p}})
                if pstate == 'component_shutdown' and not node['aggregate']:
                    viol.append({'property': 'C01', 'sig': 'iv:launched-consumer-of-shutdown-producer',
                                 'detail': {'consumer': ref, 'producer': p}})
    # task creations: every launch of a component happens after its submission and with producers final
    for e in ev:
        if e[2] != 'launch':
            continue
        ref = e[3]
        node = nodes.get(ref)
        if node is None:
            continue
        if ref not in submitted_at or submitted_at[ref] > e[0]:
            viol.append({'property': 'C01', 'sig': 'v:task-created-without-submission', 'detail': {'component': ref}})
        for p in node['preds']:
            pn = nodes[p]
            if node['repeat'] and pn['stage'] == node['stage']:
                ok = (p in submitted_at and submitted_at[p] < e[0]) or (p in final_at and final_at[p] < e[0])
                sig = 'i:observer-task-before-subject-launched'
            else:
                ok = p in final_at and final_at[p] < e[0]
                sig = 'ii:task-created-before-producer-final'
            if not ok:
                viol.append({'property': 'C01', 'sig': sig, 'detail': {'consumer': ref, 'producer': p, 'n': e[4]['n']}})


def oracle_c02(nodes, ev, outcomes, states_end, states_settled, stop, viol, rec, stages_run):
    hist = history_of(ev)
    ext = externally_stopped(ev)

    def V(sig, detail):
        viol.append({'property': 'C02', 'sig': sig, 'detail': detail})

    # 0. an exit reason the component lists as restartable is put to the restart policy (Engine.restart: budget, hook)
    #    before the component gets a final state: the rules that follow (shutdown list, failure) apply to the exit that
    #    remains once a restart is refused. Judged per execution, for plain components, when the component's own
    #    post-mortem check saw that exit and the component had not been stopped by the controller.
    for n, h in hist.items():
        nd = nodes.get(n)
        if nd is None or nd['repeat']:
            continue
        for i, x in enumerate(h):
            r = x['reason']
            if r is None or x.get('launch_failed') or r == 'SubmissionFailed' or r not in nd['restartHookOn']:
                continue
            lo = x['exit_seq']
            hi = h[i + 1]['launch_seq'] if i + 1 < len(h) else float('inf')
            pms = [e[0] for e in ev if e[2] == 'postMortemCheck' and e[3] == n and lo < e[0] < hi
                   and e[4].get('exitReason') == r and not e[4].get('finishCalled')]
            if not pms:
                continue
            if not any(e[2] == 'restart-begin' and e[3] == n and pms[0] < e[0] < hi for e in ev):
                V('rules:restartable-exit-finalised-without-consulting-restart-policy',
                  {'component': n, 'exit': r, 'execution': x['n'], 'restartHookOn': nd['restartHookOn'],
                   'shutdownOn': nd.get('shutdownOn')})
                break
    if stop is not None:
        stuck = sorted(n for n, s in states_end.items() if s not in FINAL and nodes[n]['stage'] in stages_run)
        stuck_states = {n: states_end[n] for n in stuck}
        shape = classify_hang(nodes, ev, stuck_states)
        detail = {'stop': stop, 'stuck': stuck_states}
        if not stuck_states:
            # every component is final, yet the stage loop does not return: some final state was never observed by
            # finishedCheck() (the component is not in comp_done)
            observed = set(e[3] for e in ev if e[2] == 'finishedCheck')
            cur_stage = max(stages_run) if stages_run else 0
            unobserved = sorted(n for n in nodes if nodes[n]['stage'] <= cur_stage and n not in observed
                                and states_end.get(n) in FINAL)
            if unobserved:
                sub = set()
                for n in unobserved:
                    evs = [e for e in ev if e[3] == n]
                    restarted = any(e[2] == 'restart' and (e[4] or {}).get('code') == 'RestartInitiated' for e in evs)
                    stopped = any(e[2] == 'finish' and (e[4]['state'] == 'running' or not e[4].get('via_pm')) for e in evs)
                    sub.add('stopped-while-restarting' if (restarted and stopped) else
                            ('after-stop' if stopped else ('after-restart' if restarted else 'other')))
                shape = 'final-state-never-observed:%s' % '+'.join(sorted(sub))
                detail['unobserved'] = {n: states_end.get(n) for n in unobserved}
        V('termination:%s' % shape, detail)
        return
    # 1. exactly one final state, stable
    for n, nd in nodes.items():
        if nd['stage'] not in stages_run:
            continue
        s1, s2 = states_end.get(n), states_settled.get(n)
        if s1 not in FINAL:
            V('state:not-final-after-stage', {'component': n, 'state': s1})
        elif s1 != s2:
            V('state:changed-after-stage', {'component': n, 'from': s1, 'to': s2})
    finals = {}
    for e in ev:
        if e[2] == 'ctlstate' and e[4]['new'] in FINAL:
            finals.setdefault(e[3], []).append(e[4]['new'])
    for n, lst in finals.items():
        if len(set(lst)) > 1:
            V('state:two-final-states', {'component': n, 'states': lst})
    # 2./3. model
    launched = set(e[3] for e in ev if e[2] == 'submit')  # ComponentState.run() was called (not: put down unlaunched)
    hook_at = min([e[0] for e in ev if e[2] == 'hook-complete'] or [None], key=lambda x: (x is None, x))
    model = {}
    unrecoverable = []
    for n in topo(nodes):
        nd = nodes[n]
        if nd['stage'] not in stages_run:
            continue
        # producers whose fate the rules leave open (stopped from outside, undefined-at-launch observers): what they
        # actually became decides for their consumers, provided it is one of the allowed outcomes
        pst = {}
        for p in nd['preds']:
            mp = model.get(p)
            if isinstance(mp, set) and states_settled.get(p) in mp:
                mp = states_settled.get(p)
            pst[p] = mp
        cand = None

        def soft_edge(p):  # same-stage subject of a repeating observer: its fate is undefined at the observer's launch
            # (a subject that was put down without ever being launched gives the observer nothing to start on: hard)
            return nd['repeat'] and nodes[p]['stage'] == nd['stage'] and p in launched

        failed_preds = [p for p, s in pst.items() if isinstance(s, str) and s == 'failed']
        if any(not soft_edge(p) for p in failed_preds):
            cand = {'component_shutdown'}
        else:
            if failed_preds:
                cand = 'either'
            shut = [p for p, s in pst.items() if s == {'component_shutdown'} or s == 'component_shutdown']
            maybe_shut = [p for p, s in pst.items() if isinstance(s, set) and 'component_shutdown' in s and len(s) > 1]
            if nd['aggregate']:
                rep = [p for p in nd['preds'] if nodes[p]['replicating']]
                nonrep = [p for p in nd['preds'] if p not in rep]

                def is_soft(p):  # same-stage subject of a repeating observer: undefined at its launch
                    return soft_edge(p)

                hard_nonrep = any(p in shut and not is_soft(p) for p in nonrep)
                hard_rep = rep and all(p in shut and not is_soft(p) for p in rep)
                if hard_nonrep or hard_rep:
                    cand = {'component_shutdown'}
                elif any(p in shut for p in nonrep) or (rep and all(p in shut or p in maybe_shut for p in rep)) \
                        or any(p in maybe_shut for p in nonrep):
                    cand = 'either'
            else:
                hard = [p for p in shut if not soft_edge(p)]
                soft = [p for p in shut if p not in hard] + maybe_shut
                if hard:
                    cand = {'component_shutdown'}
                elif soft:
                    cand = 'either'
        if cand == {'component_shutdown'}:
            model[n] = 'component_shutdown'
            continue
        reason = effective_exit(nd, hist.get(n))
        if reason is None and n in ext and not hist.get(n) and hook_at is not None and ext[n] > hook_at:
            # stopped before it ever ran because the stage-completion hook declared the stage complete (a shutdown the
            # *scheduler* decides for a pending component is judged by the rules below, not waved through here)
            model[n] = {'component_shutdown'}
            continue
        if reason is None:
            # never executed although the rules let it run (or executed partially): only legitimate when it was
            # stopped from outside or when the undefined-at-launch observer branch applies
            model[n] = {'component_shutdown', 'finished'} if cand == 'either' else None
            continue
        st = rule_state(nd, reason)
        if n in ext:
            # the controller stopped it: shut down, or (its own verdict having landed first) its rule-given state;
            # 'Killed' after the stop is not the component's own exit
            h_n = hist.get(n) or []
            own = bool(h_n) and h_n[-1]['exit_seq'] is not None and h_n[-1]['exit_seq'] < ext[n]
            # the 'finish' event is recorded when finish() is *called*; a caller that is descheduled before the call
            # takes effect leaves the component free to reach its own verdict first: its own post-mortem check then
            # still sees finishCalled == False
            if not own and any(e[2] == 'postMortemCheck' and e[3] == n and e[0] > ext[n] and not (e[4] or {}).get('finishCalled')
                               for e in ev):
                own = True
            model[n] = {'component_shutdown', st} if own else {'component_shutdown'}
            if own and st == 'failed' and states_settled.get(n) == 'failed':
                # its own unrecoverable exit was judged before the stop took effect: the stage has a failed component
                unrecoverable.append(n)
            continue
        if st == 'failed':
            unrecoverable.append(n)
            model[n] = 'failed'
        elif cand == 'either':
            model[n] = {st, 'component_shutdown'}
        else:
            model[n] = st
    actual_failed = sorted(n for n, s in states_settled.items() if s == 'failed' and nodes[n]['stage'] in stages_run)
    rec.count('probe.runs_with_unrecoverable_exit' if unrecoverable else 'probe.runs_without_unrecoverable_exit')
    if not unrecoverable:
        for n, m in model.items():
            a = states_settled.get(n)
            if m is None:
                V('rules:component-never-executed', {'component': n, 'state': a})
            elif isinstance(m, set):
                if a not in m:
                    V('rules:state-differs-from-model', {'component': n, 'state': a, 'model': sorted(m)})
            elif a != m:
                V('rules:state-differs-from-model', {'component': n, 'state': a, 'model': m,
                                                     'exit': effective_exit(nodes[n], hist.get(n))})
        last_stage = max(nd['stage'] for nd in nodes.values())
        for o in outcomes:
            expect = 'ok'
            if o['stage'] == last_stage:
                leaves = [n for n, nd in nodes.items() if nd['stage'] == last_stage and not nd['succs']]
                if not any(states_settled.get(n) == 'finished' for n in leaves):
                    expect = 'noleaf'
            if o['result'] != expect:
                V('verdict:stage-result-differs', {'stage': o['stage'], 'result': o['result'], 'expected': expect,
                                                   'error': o.get('error')})
    else:
        if not actual_failed:
            V('verdict:unrecoverable-exit-but-no-failed-component', {'unrecoverable': unrecoverable})
        for n in actual_failed:
            s = nodes[n]['stage']
            o = [x for x in outcomes if x['stage'] == s]
            if o and (o[0]['result'] != 'jobfail' or o[0]['stage_state'] != 'failed'):
                V('verdict:stage-with-failed-component-not-reported-failed',
                  {'component': n, 'stage': s, 'result': o[0]['result'], 'stage_state': o[0]['stage_state']})
        for n, m in model.items():
            a = states_settled.get(n)
            if a == 'component_shutdown':
                continue
            if m is None:
                V('rules:component-never-executed', {'component': n, 'state': a, 'with_failure': True})
            elif isinstance(m, set):
                if a not in m:
                    V('rules:state-differs-from-model', {'component': n, 'state': a, 'model': sorted(m), 'with_failure': True})
            elif a != m:
                V('rules:state-differs-from-model', {'component': n, 'state': a, 'model': m, 'with_failure': True})


def classify_hang(nodes, ev, stuck):
    """a coarse, history-based shape of a non-terminating run, so that one known finding does not hide another.
    Only root causes are classified: a component that is pending/running because a (transitive) producer is stuck
    is a consequence, not a shape of its own."""
    if not stuck:
        return 'stage-loop-does-not-return'

    def has_stuck_pred(n, seen=None):
        seen = seen or set()
        for p in nodes[n]['preds']:
            if p in seen:
                continue
            seen.add(p)
            if p in stuck or has_stuck_pred(p, seen):
                return True
        return False

    roots = {n: st for n, st in stuck.items() if not has_stuck_pred(n)}
    shapes = set()
    for n, st in roots.items():
        evs = [e for e in ev if e[3] == n]
        kinds = [e[2] for e in evs]
        if st == 'checking':
            restarted = any(e[2] == 'restart' and (e[4] or {}).get('code') == 'RestartInitiated' for e in evs)
            # stopped from outside: finish() that is not the verdict of the component's own post-mortem check (the state
            # recorded with the call may already be stale when finish() takes its lock, so it is not consulted)
            stopped = any(e[2] == 'finish' and (e[4]['state'] == 'running' or not e[4].get('via_pm')) for e in evs)
            last_kinds = [k for k in kinds if k in ('launch', 'launch-fail', 'exit')]
            stale = [e[0] for e in evs if e[2] == 'postMortemCheck' and e[4].get('exitReason') is None]
            last_exit = max([e[0] for e in evs if e[2] in ('exit', 'launch-fail')] or [0])
            last_pm = max([e[0] for e in evs if e[2] == 'postMortemCheck'] or [0])
            if stale and last_pm == stale[-1] and not stopped:
                # a stale notification (engine alive again: no exit reason) was the last one; the real exit - which the
                # engine took note of after it, whether the task itself ended before or after - changed nothing
                shapes.add('postmortem-stuck:after-stale-notification')
            elif restarted and stopped:
                shapes.add('postmortem-stuck:stopped-while-restarting')
            elif restarted and nodes[n]['repeat'] and last_kinds and last_kinds[-1] == 'launch-fail':
                shapes.add('postmortem-stuck:repeating-engine-restart-launch-failed')
            elif restarted:
                shapes.add('postmortem-stuck:after-restart')
            elif stopped:
                # stop of a running component: finish() checks the state, subscribes to its own POSTMORTEM notification,
                # then kills the engine. If the thread is descheduled between the check and the subscription long enough
                # for the engine to die on its own *and* for that to be published, the notification is missed - the
                # recorded gap between the finish() call and its engine.kill() tells that case apart
                fin = [e for e in evs if e[2] == 'finish' and (e[4]['state'] == 'running' or not e[4].get('via_pm'))]
                gap = None
                if fin:
                    # the kill issued by that very finish() call: first engine.kill() on the same thread after it
                    kills = [e for e in evs if e[2] == 'engine-kill' and e[0] > fin[0][0]
                             and e[4].get('thr') == fin[0][4].get('thr')]
                    own_exit = [e for e in evs if e[2] == 'exit' and e[0] > fin[0][0]]
                    if kills and own_exit:
                        gap = (kills[0][1] - fin[0][1] > 1.0) and kills[0][0] > own_exit[0][0]
                shapes.add('postmortem-stuck:after-stop-stalled-inside-finish' if gap else 'postmortem-stuck:after-stop')
            elif 'submit' in kinds and 'postMortemCheck' not in kinds:
                shapes.add('postmortem-stuck:notification-never-delivered')
            else:
                shapes.add('postmortem-stuck:other')
        elif st == 'running':
            if 'submit' not in kinds and 'finish' not in kinds:
                shapes.add('pending-forever')
            else:
                shapes.add('running-forever')
        else:
            shapes.add('stuck-in-%s' % st)
    return '+'.join(sorted(shapes))


def oracle_c12(nodes, ev, states_settled, stop, viol, rec, stages_done):
    hist = history_of(ev)

    def V(sig, detail):
        viol.append({'property': 'C12', 'sig': sig, 'detail': detail})

    restart_begin = {}
    for e in ev:
        if e[2] == 'restart-begin':
            restart_begin.setdefault(e[3], []).append(e[0])
    final_at = {}
    for e in ev:
        if e[2] == 'ctlstate' and e[4]['new'] in FINAL and e[3] not in final_at:
            final_at[e[3]] = e[0]
    for n, h in hist.items():
        nd = nodes.get(n)
        if nd is None:
            continue
        mx = nd['maxRestarts']
        if mx is None:
            mx = -1 if nd['restartHookFile'] else 3
        if not nd['repeat']:
            restarts = 0
            consecutive_resub = 0
            for i in range(1, len(h)):
                prev = h[i - 1]['reason']
                if prev is None:
                    V('relaunch:while-previous-execution-running', {'component': n, 'n': h[i]['n']})
                    continue
                if prev in ('Killed', 'Cancelled'):
                    V('relaunch:after-%s' % prev.lower(), {'component': n, 'n': h[i]['n']})
                elif prev == 'SubmissionFailed':
                    consecutive_resub += 1
                    if consecutive_resub > 5:
                        V('resubmission:more-than-five-consecutive', {'component': n, 'count': consecutive_resub})
                        break
                elif prev in nd['restartHookOn']:
                    restarts += 1
                    if mx != -1 and restarts > mx:
                        V('restarts:exceed-maximum', {'component': n, 'restarts': restarts, 'max': mx})
                        break
                else:
                    V('relaunch:exit-reason-not-restartable', {'component': n, 'reason': prev,
                                                               'restartHookOn': nd['restartHookOn']})
                if prev == 'Success':
                    consecutive_resub = 0
                elif prev != 'SubmissionFailed':
                    # the statement counts *consecutive* re-submissions after failed submissions
                    consecutive_resub = 0
            if restarts:
                rec.count('probe.component_restarted')
            if mx != -1 and restarts == mx and mx > 0:
                rec.count('probe.restart_budget_fully_used')
            if consecutive_resub >= 5:
                rec.count('probe.five_resubmissions')
        else:
            # a repeating engine restarts at most once and only after ResourceExhausted
            rl = []
            prev_launch = 0
            for x in h:
                if any(prev_launch < r < x['launch_seq'] for r in restart_begin.get(n, [])):
                    rl.append(x)
                prev_launch = x['launch_seq']
            if len(rl) > 1:
                V('restarts:repeating-engine-restarted-more-than-once', {'component': n, 'count': len(rl)})
            for x in rl:
                idx = h.index(x)
                # the engine's exit is that of the last task it actually ran (a failed submission leaves none behind)
                ran_before = [y for y in h[:idx] if not y.get('launch_failed')]
                prev = ran_before[-1]['reason'] if ran_before else None
                if prev != 'ResourceExhausted':
                    V('relaunch:repeating-engine-restarted-after-%s' % prev, {'component': n})
        # nothing is launched once the component has received its final state
        fa = final_at.get(n)
        if fa is not None and not nd['repeat']:
            late = [x for x in h if x['launch_seq'] > fa and not x.get('launch_failed')]
            if late:
                # a component that has its final state was stopped or has finished: starting its task again (a restart
                # that was being prepared when the controller stopped the component) runs a task nobody supervises
                rec.count('probe.launch_after_final_state')
                V('relaunch:after-the-component-received-its-final-state',
                  {'component': n, 'final_state': states_settled.get(n), 'launches_after': [x['n'] for x in late]})
        # once a restart is refused the component receives its final state
        # (judged for the stages whose loop returned: when an earlier stage fails the launcher aborts and components of
        # later stages that had started early are still being dealt with when the process exits)
        if stop is None and nd['stage'] in stages_done and h and h[-1]['reason'] is not None \
                and states_settled.get(n) not in FINAL:
            V('refused:no-final-state', {'component': n, 'state': states_settled.get(n), 'last_exit': h[-1]['reason']})
    # once a restart is refused the component receives its final state - also in a run that never returns: a refusal
    # (any restart code but RestartInitiated) that is followed neither by a launch nor by a final state for 300
    # virtual seconds (the slowest verdict takes 25 s)
    now = ev[-1][1] if ev else 0.0
    for e in ev:
        if e[2] != 'restart' or not e[4] or e[4].get('code') in (None, 'RestartInitiated'):
            continue
        n = e[3]
        if n not in nodes or states_settled.get(n) in FINAL or now - e[1] < 300.0:
            continue
        if any(x[2] in ('launch', 'launch-fail', 'restart-begin') and x[3] == n and x[0] > e[0] for x in ev):
            continue
        V('refused:no-final-state', {'component': n, 'code': e[4].get('code'), 'state': states_settled.get(n),
                                     'refused_at': e[1], 'now': now, 'restart_of_stage': True})
        break
    for e in ev:
        if e[2] == 'restart' and e[4] and e[4].get('code'):
            rec.count('probe.restart_code.%s' % e[4]['code'])


# ----------------------------------------------------------------------------------------------------
def run_case(case, schedule, opts):
    import os
    if case['knobs'].get('workers'):
        os.environ['ST4SD_ORCHESTRATOR_WORKERS_DEFAULT_ALL'] = str(case['knobs']['workers'])
    simk, R, K, root = common.setup_run(case, schedule, opts, 'wf')
    REC = R.REC
    R.CTX = ctx = R.RunContext(R.Plan(case['plan'], case.get('hook')))
    result = {'violations': []}
    stop = None
    outcomes = []
    states_end = states_settled = {}
    nodes = {}
    invalid = None
    try:
        try:
            exp = R.build_experiment(programs.render_flowir(case), root, extra_files=programs.extra_files(case))
        except simk.SimStop:
            raise
        except Exception as e:
            import traceback
            invalid = repr(e)[:300] + ' | ' + traceback.format_exc()[-1500:]
            exp = None
        if exp is not None:
            ctx.exp = exp
            controller, comps = R.new_controller(exp, restart_sources={0: True} if case.get('restart_sources') else None)
            ctx.controller = controller
            if case.get('pauses'):
                R.start_operator(case['pauses'], slow_wake_p=case.get('slow_wake_p', 0.0))
            if case.get('instability'):
                R.start_instability(case['instability'])
            if case.get('complete_at') is not None:
                t_hook0 = K.clock
                t_done = float(case['complete_at'])

                def completion_hook(stage_index, directory):
                    done = (K.clock - t_hook0) >= t_done
                    if done:
                        if not REC.counters.get('fault.completion_hook_true'):
                            REC.ev('hook-complete', 'stage%d' % stage_index, None)
                        REC.count('fault.completion_hook_true')
                    return done

                controller.completionCheck = completion_hook
            nodes = node_table(controller)
            try:
                R.run_stages(exp, controller, REC, outcomes)
                states_end = R.states_of(controller)
                simk.sim_sleep(60.0)
                states_settled = R.states_of(controller)
            except simk.SimStop as e:
                stop = e.reason
                K.freeze()
                states_end = states_settled = R.states_of(controller)
                result['stop_detail'] = e.detail
    except simk.SimStop as e:
        stop = e.reason
    K.freeze()
    ev = REC.events
    if invalid is not None:
        REC.count('invalid_program')
        result['invalid'] = invalid
    elif nodes:
        stages_run = set(o['stage'] for o in outcomes)
        if stop is not None:
            stages_run = set(o['stage'] for o in outcomes) | {len(outcomes)}
        viol = result['violations']
        oracle_c01(nodes, ev, viol)
        oracle_c02(nodes, ev, outcomes, states_end, states_settled, stop, viol, REC, stages_run)
        oracle_c12(nodes, ev, states_settled, stop, viol, REC, set(o['stage'] for o in outcomes))
        # de-duplicate identical (property, sig)
        seen = set()
        uniq = []
        for v in viol:
            k = (v['property'], v['sig'])
            if k not in seen:
                seen.add(k)
                uniq.append(v)
        result['violations'] = uniq
        REC.count('probe.components', len(nodes))
        if any(nd['repeat'] for nd in nodes.values()):
            REC.count('probe.has_observer')
        if any(nd['aggregate'] for nd in nodes.values()):
            REC.count('probe.has_aggregator')
        if any(s == 'component_shutdown' for s in states_settled.values()):
            REC.count('probe.some_component_shutdown')
        if any(s == 'failed' for s in states_settled.values()):
            REC.count('probe.some_component_failed')
        if len(set(nd['stage'] for nd in nodes.values())) > 1:
            REC.count('probe.multi_stage')
        # components of a later stage submitted while an earlier stage is still running (early start)
        stage_started = {}
        for e in ev:
            if e[2] == 'stage-start':
                stage_started[int(e[3][5:])] = e[0]
        early = [e[3] for e in ev if e[2] == 'submit' and e[3] in nodes
                 and e[0] < stage_started.get(nodes[e[3]]['stage'], float('inf'))]
        if early:
            REC.count('probe.component_submitted_before_its_stage_started')
            if any(states_settled.get(n) == 'failed' for n in early):
                REC.count('probe.early_started_component_failed')
        # scheduler pass between finish() and finishedCheck() of the same component
        fin = {}
        for e in ev:
            if e[2] == 'ctlstate' and e[4]['new'] in FINAL:
                fin.setdefault(e[3], e[0])
        for e in ev:
            if e[2] == 'finishedCheck' and e[3] in fin:
                if any(x[2] == 'sched-start' and fin[e[3]] < x[0] < e[0] for x in ev):
                    REC.count('probe.sched_pass_between_finish_and_finishedCheck')
                    break
    result['sample'] = {'flowir': programs.render_flowir(case), 'plan': case['plan'], 'hook': case.get('hook'),
                        'knobs': case['knobs'], 'outcomes': outcomes, 'final_states': states_settled,
                        'history': [[e[0], e[1], e[2], e[3]] for e in ev
                                    if e[2] in ('launch', 'exit', 'submit', 'finish', 'restart', 'launch-fail', 'stage-end')][:120]}
    return common.finish_run(simk, R, K, root, result)
