"""C14 in situ (E1 + SimFS): a DoWhile workflow runs under the simulated Controller while a real StatusMonitor (status.txt)
and a real OutputAgent (output.txt/json) update their files and every loop iteration rewrites the instance description;
the simulated process dies at a seeded write boundary of any of these writers. Afterwards every state file must load and
be complete (status: all keys; listing and instance description: parse; the instance must load as an experiment)."""
import copy
import json
import os
import random

from checks import common, e2

PROPERTY = 'C14'
LEVEL = 'fault_enumeration'
BOOT = {'kernel': True}
TIERS = {
    'quick': {'runs': 128, 'budget_s': 60, 'shrink_runs': 30, 'opts': {'max_vtime': 4000.0, 'wall_timeout': 200}},
    'thorough': {'runs': 6000, 'budget_s': 1200, 'shrink_runs': 60, 'opts': {'max_vtime': 4000.0, 'wall_timeout': 300}},
}
RULE = ('in situ: each run = one generated DoWhile workflow under the real Controller with a real StatusMonitor thread and '
        'OutputAgent, all file writes of the instance behind the SimFS proxy; the process is crashed at write boundary N (seeded, '
        'N over all writers of the run; boundaries are also pre-emption points). Oracle on what survives: status.txt loads with '
        'all its keys, output.txt/output.json and conf/manifest.yaml parse, conf/flowir_instance.yaml loads as an experiment '
        'instance. distinct_nontrivial = runs in which the crash fired, by distinct (file, boundary kind, loop iteration)')
REAL = common.REAL_E1 + ['experiment.runtime.output.StatusMonitor (thread, CheckStatus, Status.update)',
                         'experiment.runtime.output.OutputAgent.process_stage/updateLogs',
                         'WorkflowGraph.instantiate_dowhile_next_iteration(store_flowir_to_disk=True) from the controller thread']
STUB = common.STUB_E1 + ['instance file writes -> sim.simfs proxy (boundary counting, crash placement)']
ASSUMPTIONS = common.ASSUMPTIONS_E1 + ['process death, not power loss; un-flushed data of every open file is lost at the crash']


def gen_case(seed, tier, index=0):
    rr = random.Random(seed)
    prog = e2.gen_loop_program(rr)
    prog['k'] = rr.choice([1, 2, 3])
    prog['reloads'] = []
    prog['uservars'] = False
    prog['outside'] = [o for o in prog['outside'] if o['method'] in ('ref', 'loopref')][:1] or [
        {'name': 'out0', 'target': 'stop', 'method': 'ref'}]
    knobs = common.knobs_from(rr, tier)
    knobs['launch_delay'] = 0.0
    knobs['trace'] = 'none'
    # crash placement: the n-th write boundary among the files of one class (the instance description takes thousands of
    # small writes per rewrite, the status and listing files a dozen: uniform placement over all boundaries would hardly
    # ever land in the latter)
    cls = rr.choice(['outdir', 'outdir', 'conf', 'conf', 'any', 'commit', 'commit'])
    if cls == 'commit':  # the n-th rename/replace/remove: the instants at which a new version becomes the file
        n = rr.randint(1, rr.choice([6, 20, 60]))
    elif cls == 'outdir':
        n = rr.randint(1, rr.choice([30, 150, 600]))
    elif cls == 'conf':
        n = int(10 ** rr.uniform(0, 3.7))
    else:
        n = int(10 ** rr.uniform(0, 3.8))
    case = {'prog': prog, 'knobs': knobs, 'dur': rr.choice([0.3, 1.0]), 'status_interval': rr.choice([1.0, 2.0, 5.0]),
            'crash_class': cls, 'crash_at': n, 'sched_seed': rr.getrandbits(48)}
    if rr.random() < 0.2:
        # the process dies *between* two updates (after a stage completed, nothing in flight) and the run is restarted
        # from the next stage: the restarted process goes on updating the same state files
        case['mode'] = 'restart'
        case['crash_at'] = 10 ** 9
        case['restart_stage'] = rr.choice([1, 1, 2])
        if prog['import_stage'] == 0:
            prog['import_stage'] = 1
    return case


def shrink_candidates(case):
    for k in (1, 2):
        if k < case['prog']['k']:
            c = copy.deepcopy(case)
            c['prog']['k'] = k
            yield c
    for k, v in (('pool_delay_p', 0.0), ('stall_p', 0.0), ('preempt_p', 0.0)):
        if case['knobs'].get(k) != v:
            c = copy.deepcopy(case)
            c['knobs'][k] = v
            yield c


def run_case(case, schedule, opts):
    simk, R, K, root = common.setup_run(case, schedule, opts, 'c14rt')
    REC = R.REC
    prog = copy.deepcopy(case['prog'])
    k_target = prog['k']
    R.CTX = ctx = R.RunContext(R.Plan({}, {}))
    result = {'violations': []}
    viol = result['violations']

    def V(sig, detail):
        if not any(v['sig'] == sig for v in viol):
            viol.append({'property': 'C14', 'sig': sig, 'detail': detail})

    def on_launch(job, n, spec):
        name = job.reference.split('.', 1)[1]
        spec['dur'] = case.get('dur', 0.3)
        spec['outs'] = [[0.05, 'data.txt', 'x\n']]
        if '#' in name and name.split('#', 1)[1] == 'stop':
            it = int(name.split('#', 1)[0])
            spec['outs'] = [[0.05, 'iteration.next', 'True\n' if it < k_target else 'False\n', 'w']]

    ctx.on_launch = on_launch
    stop = None
    outcomes = []
    exp = None
    crashed_at = {}
    fs = None
    try:
        main, dw = e2.render_loop(prog)
        body_stage = {n: st for (n, st, _, _, _) in e2.body_components(prog)}
        main += 'output:\n  Result:\n    data-in: "stage%d.work/data.txt:ref"\n    description: "loop result"\n    type: txt\n' % (
            prog['import_stage'] + body_stage['work'])
        main += '  Input:\n    data-in: "stage0.GenerateInput/data.txt:ref"\n    description: "the input"\n    type: txt\n'
        exp = R.build_experiment(main, root, extra_files={'conf/dowhile.yaml': dw})
        ctx.exp = exp
        inst = exp.instanceDirectory.location
        from sim import simfs
        fs = simfs.install([inst, os.path.realpath(exp.instanceDirectory.outputDir)], case['sched_seed'])

        outdir = os.path.realpath(exp.instanceDirectory.outputDir)
        confdir = os.path.realpath(os.path.join(inst, 'conf'))
        per_class = {'outdir': 0, 'conf': 0, 'any': 0, 'other': 0, 'commit': 0}
        want = case.get('crash_class', 'any')

        def hook(kind, path):
            d = os.path.dirname(os.path.realpath(path))
            cls = 'outdir' if d == outdir else 'conf' if d == confdir else 'other'
            per_class[cls] += 1
            per_class['any'] += 1
            commit = kind in ('rename', 'replace', 'remove')
            if commit:
                per_class['commit'] += 1
            if not crashed_at and (cls == want or want == 'any' or (want == 'commit' and commit)) \
                    and per_class[want] == case['crash_at']:
                it = max([e2.iteration_of(n) or 0 for n in exp.graph.nodes] or [0])
                fname = os.path.basename(path)
                fname = 'flowir_instance.yaml.tmp' if fname.startswith('flowir_instance.yaml.') else \
                    'manifest.yaml.tmp' if fname.startswith('manifest.yaml.') else 'output-dir-temporary' if len(fname) == 36 else fname
                crashed_at.update({'boundary': fs.count, 'kind': kind, 'file': fname, 'class': cls, 'iteration': it,
                                   'thread': K.cur().name})
                REC.count('fault.crash_at_write_boundary')
                REC.count('crash.%s.%s' % (fname, kind))
                for p in list(fs.open_proxies):
                    p.abandon()
                K.crash_now()
            K.yield_point('fs')

        fs.hook = hook
        import experiment.runtime.output as O
        controller, comps = R.new_controller(exp)
        ctx.controller = controller
        sm = O.StatusMonitor(exp, report_components=False)
        sm.repeatInterval = case['status_interval']
        oa = O.OutputAgent(exp)
        sm.run(controller)
        rs = case.get('restart_stage') if case.get('mode') == 'restart' else None
        if rs is not None and rs >= len(exp._stages):
            rs = len(exp._stages) - 1
        for stage in exp._stages:
            if rs is not None and stage.index == rs:
                # the process is gone; a new one opens the instance and carries on from this stage
                sm.kill()
                try:
                    with open(os.path.join(os.path.realpath(exp.instanceDirectory.outputDir), 'output.json')) as f:
                        result['listed_before_restart'] = sorted(json.load(f))
                except Exception as e:
                    result['listed_before_restart'] = []
                del controller, comps, sm, oa
                exp = e2.reload_instance(inst)
                ctx.exp = exp
                REC.count('fault.crash_between_updates_and_restart')
                controller, comps = R.new_controller(exp, initial_stage=rs)
                ctx.controller = controller
                sm = O.StatusMonitor(exp, report_components=False)
                sm.repeatInterval = case['status_interval']
                oa = O.OutputAgent(exp)
                sm.run(controller)
            controller.initialise(stage, R.FakeStatus())
            controller.run()
            oa.process_stage(stage.index)
            outcomes.append(stage.index)
        sm.kill()
    except simk.SimStop as e:
        stop = e.reason
    except Exception as e:
        import traceback
        result['error'] = traceback.format_exc()[-1500:]
        stop = 'exception'
    K.freeze()
    if fs is not None:
        fs.enabled = False
    if stop == 'exception':
        # the workload itself failed (not a verdict about C14): report as harness problem
        raise RuntimeError('c14rt workload failed: %s' % result.get('error'))
    if exp is not None and stop == 'crash':
        import yaml
        import experiment.model.data as D
        import experiment.model.conf as C
        inst = exp.instanceDirectory.location
        out = os.path.realpath(exp.instanceDirectory.outputDir)
        # status.txt
        sp = os.path.join(out, 'status.txt')
        if os.path.exists(sp):
            try:
                st = D.Status.statusFromFile(sp)
                missing = [k for k in ('stages', 'current-stage', 'stage-state', 'experiment-state', 'total-progress', 'updated')
                           if k not in st.data]
                if missing:
                    V('in-situ:status.txt:incomplete-after-crash', {'missing': missing, 'crash': crashed_at})
            except Exception as e:
                V('in-situ:status.txt:does-not-load-after-crash', {'error': repr(e)[:300], 'crash': crashed_at})
        for name, loader in (('output.txt', lambda p: json.loads(C.ConfigurationFileToJson(p))),
                             ('output.json', lambda p: json.load(open(p)))):
            p = os.path.join(out, name)
            if os.path.exists(p):
                try:
                    loader(p)
                except Exception as e:
                    V('in-situ:%s:does-not-load-after-crash' % name, {'error': repr(e)[:300], 'crash': crashed_at})
        for name in ('flowir_instance.yaml', 'manifest.yaml'):
            p = os.path.join(inst, 'conf', name)
            try:
                with open(p) as f:
                    d = yaml.safe_load(f)
                if name == 'flowir_instance.yaml' and (not isinstance(d, dict) or not d.get('components')):
                    raise ValueError('no components')
            except Exception as e:
                V('in-situ:%s:does-not-load-after-crash' % name, {'error': repr(e)[:300], 'crash': crashed_at})
        if not viol:
            try:
                e2.reload_instance(inst)
                REC.count('probe.instance_reloaded_after_crash')
            except Exception as e:
                V('in-situ:instance-does-not-load-after-crash', {'error': repr(e)[:400], 'crash': crashed_at})
        REC.note_abstract(crashed_at.get('file'), crashed_at.get('kind'), crashed_at.get('iteration'))
    elif stop is None and case.get('mode') == 'restart' and exp is not None:
        # every key-output whose stage completed - before or after the restart - is in the listing
        out = os.path.realpath(exp.instanceDirectory.outputDir)
        import experiment.model.conf as C
        for name, loader in (('output.txt', lambda p: json.loads(C.ConfigurationFileToJson(p))),
                             ('output.json', lambda p: json.load(open(p)))):
            try:
                listing = loader(os.path.join(out, name))
            except Exception as e:
                V('restart:%s:does-not-load' % name, {'error': repr(e)[:300]})
                continue
            for key in result.get('listed_before_restart') or []:
                if key not in listing:
                    V('restart:%s:entry-written-before-the-restart-is-lost' % name,
                      {'missing': key, 'listed': sorted(listing), 'listed_before_restart': result.get('listed_before_restart'),
                       'restart_stage': case.get('restart_stage'),
                       'stages_completed': outcomes})
        REC.count('probe.restart_runs_judged')
    elif stop is None:
        REC.count('probe.run_completed_before_crash_point')
        REC.count('probe.boundaries_in_run', fs.count if fs else 0)
    else:
        REC.count('probe.capped')
    result['sample'] = {'program': prog, 'crash': crashed_at, 'stages_completed': outcomes}
    if case.get('dump_log') and fs is not None:
        import collections
        c = collections.Counter((os.path.basename(f).split('.')[0] + ('.tmp' if f.endswith('.tmp') else ''), k) for (_, k, f) in fs.log)
        result['sample']['fslog'] = sorted((list(k), v) for k, v in c.items())
    result['distinct_units'] = 1 if (crashed_at or case.get('mode') == 'restart') else 0
    return common.finish_run(simk, R, K, root, result)
