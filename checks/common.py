"""Shared pieces of the E1 (runtime simulation) checks."""
import hashlib
import json
import os
import random
import shutil

REAL_E1 = [
    'experiment.runtime.control.Controller', 'experiment.runtime.workflow.ComponentState/StageState',
    'experiment.runtime.engine.Engine/RepeatingEngine', 'experiment.runtime.monitor.CreateMonitor/MonitorExceptionTracker',
    'experiment.runtime.utilities.rx.ThreadPoolGenerator', 'reactivex (all operators and schedulers, unmodified)',
    'experiment.model.data.Experiment/Job.stageIn', 'experiment.model.graph.WorkflowGraph', 'FlowIR loading/validation',
    'instance directory on /dev/shm (real file system)', 'OS threads (real; which one runs is decided by the kernel)',
]
STUB_E1 = [
    'task backends local/simulator -> sim.runtime.SimTask (no child processes)',
    'StatusDB -> FakeStatus (3 lines, as in the repository tests)',
    'scripts/elaunch.py stage loop -> sim.runtime.run_stages (restated)',
    'ComponentState construction loop of elaunch -> sim.runtime.new_controller (restated)',
    'threading/time/datetime/ThreadPoolExecutor/uuid4 -> sim.kernel',
    'CDB/memoization, optimizer, hybrid/LSF/Kubernetes/Docker: not simulated',
]
ASSUMPTIONS_E1 = [
    'pre-emption happens at synchronisation points (and, in a share of the runs, at function entries/lines of the runtime modules)',
    'a clean batch is evidence over the sampled program x fault x schedule space, not a proof',
    'SimTask honours kill() promptly unless the fault plan says otherwise',
]


FOCUS_FUNCTIONS = ['restart', '_restartComponent', 'postMortemCheck', '_finish', 'finish', 'shutdown', 'kill', 'Setter',
                   'suicide', 'runRestart', 'EngineTaskController', 'RunIteration', 'exitReason', 'isAlive', 'finishedCheck',
                   '_stopComponents', 'kill_all_components', 'notify_all_producers_finished', 'stageIn', 'suspend', 'resume',
                   'TransitionComponentToFinalState', 'run', 'stateDictionary', 'emit_now', 'StateFilter', 'CheckState',
                   'HandleTaskExit', 'UpdateStateBasedOnEngine', 'stop_engine', 'completionCheck', 'wake_up', 'sleep']


def knobs_from(rng, tier):
    trace = rng.choice(['none', 'none', 'none', 'call', 'call', 'line'])
    # drawn from a generator of its own (seeded from rng's state without advancing it): one run in ten has one slow
    # scheduler pool (sim/kernel.py slow_pool)
    r2 = random.Random(repr(rng.getstate()[1][:8]))
    slow = [r2.randint(1, 8), r2.choice([0.05, 0.2, 0.5])] if r2.random() < 0.1 else None
    # ... and one in sixteen one slow kind of thread (sim/kernel.py slow_thread): engine monitors, timer/restart
    # threads, the controller's main loop, or the workers of one scheduler
    slow_thr = ([r2.choice(['(EngineCore)', 'Thread-', 'MainThread', 'Pool1_', 'Pool3_', 'Pool7_', 'Pool8_']),
                 r2.choice([0.002, 0.01, 0.03])] if r2.random() < 0.0625 else None)
    # ... and one in six a focus set: every line of 1-3 functions of the runtime's state protocol is a pre-emption point
    # with a boosted probability (cooperative "buggify" sites, a random subset per run)
    focus = [sorted(r2.sample(FOCUS_FUNCTIONS, r2.choice([1, 2, 3]))), r2.choice([0.1, 0.3, 0.6])] if r2.random() < 0.17 else None
    return {
        'focus': focus,
        'slow_thread': slow_thr,
        'slow_pool': slow,
        'preempt_p': rng.choice([0.0, 0.02, 0.1, 0.3]),
        'stall_p': rng.choice([0.0, 0.0, 0.002, 0.01]),
        'trace': trace,
        'launch_delay': rng.choice([0.0, 0.0, 5.0]),
        'pool_delay_p': rng.choice([0.0, 0.0, 0.02, 0.1, 0.1]),
        'start_delay': rng.choice([0.0, 1.0]),
    }


def gen_instability(rr, p=0.1):
    if rr.random() >= p:
        return []
    t = rr.choice([0.0, 1.0, 5.0, 20.0, 40.0])
    return [t + 25.0 * k for k in range(rr.choice([1, 2, 6]))]


def gen_pauses(rr, p=0.2):
    if rr.random() >= p:
        return []
    return [[rr.choice([0.5, 2.0, 4.0, 8.0, 15.0, 30.0, 60.0]), rr.choice([1.0, 5.0, 20.0])] for _ in range(rr.choice([1, 1, 2]))]


def setup_run(case, schedule, opts, tag='run'):
    """common prologue of an E1 run inside the forked child; returns (simk, R, K, root)"""
    from sim import kernel as simk
    from sim import runtime as R
    import experiment.runtime.engine as engine
    knobs = case.get('knobs', {})
    seed = case.get('sched_seed', 0)
    random.seed(seed)
    root = R.make_root(tag, json.dumps([case, len(schedule) if schedule is not None else -1], sort_keys=True))
    K = simk.new_kernel(seed, preempt_p=knobs.get('preempt_p', 0.1), stall_p=knobs.get('stall_p', 0.0),
                        max_steps=opts.get('max_steps', 3_000_000), max_vtime=opts.get('max_vtime', 40_000.0),
                        schedule=schedule)
    K.pool_delay_p = knobs.get('pool_delay_p', 0.0)
    K.slow_pool = knobs.get('slow_pool') or None
    K.slow_thread = knobs.get('slow_thread') or None
    R.REC = R.Recorder()
    R.install_fs_seams(root)
    R.register_backends()
    R.install_probes()
    engine.ENGINE_LAUNCH_DELAY_SECONDS = knobs.get('launch_delay', 5.0)
    K.adopt_main()
    tr = knobs.get('trace', 'none')
    focus = knobs.get('focus') or None
    if focus:
        K.focus_p = focus[1]
    if tr != 'none' or focus:
        repo_py = os.path.join(os.environ.get('VERIF_REPO', '/repo'), 'python', 'experiment', 'runtime')
        files = [os.path.join(repo_py, f) for f in ('control.py', 'workflow.py', 'engine.py', 'monitor.py')]
        simk.enable_trace(files, line_level=(tr == 'line'), call_level=(tr != 'none'), focus=(focus[0] if focus else ()))
    return simk, R, K, root


def finish_run(simk, R, K, root, result):
    import sys
    sys.settrace(None)
    result['digest'] = K.digest.hexdigest()[:16]
    result['abstract'] = R.REC.abstract.hexdigest()[:16]
    result['vtime'] = round(K.clock, 3)
    result['steps'] = K.steps
    c = dict(R.REC.counters)
    c['kernel.switches'] = K.switches
    c['kernel.threads'] = K.nthreads
    c['fault.stall'] = K.stalls
    c['fault.preempt_inside_focus_function'] = K.focus_preempts
    if K.slow_thread:
        c['fault.run_with_one_slow_kind_of_thread'] = 1
    if K.slow_pool:
        c['fault.run_with_one_slow_scheduler_pool'] = 1
    c['fault.preempt'] = K.preempts
    c['fault.pool_task_delayed'] = K.pool_delays
    c['fault.slow_pool_task_delayed'] = K.slow_pool_delays
    if K.stop_reason:
        c['stop.%s' % K.stop_reason] = 1
    result['counters'] = c
    result['thread_exceptions'] = [t for t in K.trace][:5]
    if result.get('violations'):
        result['decisions'] = K.decisions
        evs = [e for e in R.REC.events if e[2] not in ('sched-start', 'kstart', 'kend', 'postMortemCheck-end',
                                                        'finishedCheck-end')]
        result['events'] = evs if len(evs) <= 700 else evs[:350] + [[0, 0, '...', None, None]] + evs[-350:]
    R.cleanup_root(root)
    return result
