"""Driver: seeds -> cases -> workers -> verdicts, minimisation, replay files, evidence.

Runs in an *unpatched* interpreter; only the workers install the seams.

Exit codes: 0 property held on everything explored (listed known findings are printed, not failed on)
            1 at least one violation that known_findings.json does not list (VIOLATION line printed)
            2 HARNESS-ERROR: the machinery itself failed; this is never a verdict
"""
import argparse
import hashlib
import importlib
import json
import os
import selectors
import subprocess
import sys
import time

VERIF = os.path.dirname(os.path.dirname(os.path.abspath(__file__)))
PY = os.environ.get('VERIF_PYTHON', '/venv/bin/python')


def derive_seed(base, check, i):
    h = hashlib.sha256(('%s|%s|%d' % (base, check, i)).encode()).digest()
    return int.from_bytes(h[:7], 'big')


class Worker:
    def __init__(self, modname, env):
        cmd = [PY, '-W', 'ignore', '-m', 'sim.worker', modname]
        if os.path.exists('/usr/bin/setarch'):
            cmd = ['/usr/bin/setarch', '-R'] + cmd
        self.p = subprocess.Popen(cmd, stdin=subprocess.PIPE, stdout=subprocess.PIPE, stderr=subprocess.PIPE,
                                  cwd=VERIF, env=env, text=True, bufsize=1)
        os.set_blocking(self.p.stderr.fileno(), False)
        self.job = None
        self.ready = False

    def send(self, job):
        self.job = job
        self.p.stdin.write(json.dumps(job) + '\n')
        self.p.stdin.flush()

    def close(self):
        try:
            self.p.stdin.write(json.dumps({'quit': True}) + '\n')
            self.p.stdin.flush()
            self.p.stdin.close()
        except Exception:
            pass
        try:
            self.p.wait(timeout=5)
        except Exception:
            self.p.kill()

    def stderr_tail(self):
        try:
            return (self.p.stderr.read() or '')[-4000:]
        except Exception:
            return ''


class Pool:
    def __init__(self, modname, n, extra_env=None):
        self.modname = modname
        env = dict(os.environ)
        env.update({'PYTHONHASHSEED': os.environ.get('VERIF_HASHSEED', '0'), 'TZ': 'UTC', 'PYTHONDONTWRITEBYTECODE': '1',
                    'PYTHONPATH': VERIF + os.pathsep + env.get('PYTHONPATH', '')})
        env.pop('VERIF_LOG', None)
        if extra_env:
            env.update(extra_env)
        self.env = env
        self.n = n
        self.workers = []
        self.sel = selectors.DefaultSelector()
        for _ in range(n):
            self._spawn()
        self.next_id = 0

    def _spawn(self):
        w = Worker(self.modname, self.env)
        self.workers.append(w)
        self.sel.register(w.p.stdout, selectors.EVENT_READ, w)
        return w

    def _drop(self, w):
        try:
            self.sel.unregister(w.p.stdout)
        except Exception:
            pass
        self.workers.remove(w)
        try:
            w.p.kill()
        except Exception:
            pass

    def run(self, jobs, on_result):
        """jobs: iterator of dicts (case, schedule, opts, + any tag keys). on_result(job, msg) -> bool stop"""
        jobs = iter(jobs)
        exhausted = False
        stop = False
        inflight = 0
        while True:
            # feed idle workers
            for w in list(self.workers):
                if stop or exhausted:
                    break
                if w.ready and w.job is None:
                    try:
                        job = next(jobs)
                    except StopIteration:
                        exhausted = True
                        break
                    job = dict(job)
                    job['id'] = self.next_id
                    self.next_id += 1
                    w.send(job)
                    inflight += 1
            if (exhausted or stop) and inflight == 0:
                return
            for key, _ in self.sel.select(timeout=10):
                w = key.data
                line = w.p.stdout.readline()
                if not line:
                    # worker died
                    job = w.job
                    err = w.stderr_tail()
                    self._drop(w)
                    nw = self._spawn()
                    if job is not None:
                        inflight -= 1
                        if on_result(job, {'id': job['id'], 'harness_error': 'worker died: ' + err}):
                            stop = True
                    elif not w.ready:
                        raise RuntimeError('worker failed to boot:\n' + err)
                    continue
                msg = json.loads(line)
                if msg.get('ready'):
                    w.ready = True
                    continue
                job = w.job
                w.job = None
                inflight -= 1
                if on_result(job, msg):
                    stop = True

    def close(self):
        for w in self.workers:
            w.close()


# ----------------------------------------------------------------------------------------------------
def harness_version():
    """content hash of the simulation machinery: a replay is exact only for the version that recorded it"""
    h = hashlib.sha256()
    for d in ('sim', 'checks'):
        for f in sorted(os.listdir(os.path.join(VERIF, d))):
            if f.endswith('.py'):
                with open(os.path.join(VERIF, d, f), 'rb') as fh:
                    h.update(f.encode() + fh.read())
    return h.hexdigest()[:12]


def load_known_findings():
    p = os.path.join(VERIF, 'known_findings.json')
    if not os.path.exists(p):
        return []
    with open(p) as f:
        return json.load(f).get('findings', [])


def finding_for(findings, prop, sig):
    for f in findings:
        if f.get('property') == prop and f.get('status') == 'open' and f.get('sig') == sig:
            return f
    return None


def write_json(path, obj):
    os.makedirs(os.path.dirname(path), exist_ok=True)
    tmp = path + '.tmp%d' % os.getpid()
    with open(tmp, 'w') as f:
        json.dump(obj, f, indent=1, sort_keys=True, default=repr)
        f.write('\n')
    os.rename(tmp, path)


def viols_of(msg, prop):
    if 'result' not in msg:
        return []
    return [v for v in msg['result'].get('violations', []) if v.get('property') == prop]


def run_batch(pool, jobs):
    out = []

    def cb(job, msg):
        out.append((job, msg))
        return False

    pool.run(jobs, cb)
    out.sort(key=lambda jm: jm[0]['id'])
    return out


def minimise(pool, mod, prop, sig, case, opts, budget_runs, log):
    """greedy case-level reduction, then truncation of the schedule decision list"""
    used = [0]

    def reproduces(msg):
        return any(v.get('sig') == sig for v in viols_of(msg, prop))

    cur = case
    cur_msg = None
    W = max(1, len(pool.workers))
    improved = True
    while improved and used[0] < budget_runs and hasattr(mod, 'shrink_candidates'):
        improved = False
        gen = mod.shrink_candidates(cur)
        while used[0] < budget_runs:
            batch = []
            for c in gen:
                batch.append(c)
                if len(batch) >= W:
                    break
            if not batch:
                break
            res = run_batch(pool, [{'case': c, 'schedule': None, 'opts': opts} for c in batch])
            used[0] += len(batch)
            hit = None
            for (job, msg) in res:
                if reproduces(msg):
                    hit = (job['case'], msg)
                    break
            if hit is not None:
                cur, cur_msg = hit
                improved = True
                log('  shrink: accepted a simpler case (%d runs used)' % used[0])
                break
    # final run of the reduced case to obtain its decision list
    if cur_msg is None:
        res = run_batch(pool, [{'case': cur, 'schedule': None, 'opts': opts}])
        used[0] += 1
        cur_msg = res[0][1]
        if not reproduces(cur_msg):
            return cur, None, cur_msg, used[0], False
    decisions = (cur_msg.get('result') or {}).get('decisions')
    schedule = None
    if decisions is not None:
        # verify that replaying the full list reproduces, then truncate
        res = run_batch(pool, [{'case': cur, 'schedule': decisions, 'opts': opts}])
        used[0] += 1
        if reproduces(res[0][1]):
            schedule = decisions
            lo, hi = 0, len(decisions)  # invariant: prefix of length hi reproduces
            best_msg = res[0][1]
            while lo < hi and used[0] < budget_runs + 40:
                cands = sorted(set(lo + (hi - lo) * k // (W + 1) for k in range(1, W + 1)) | {lo})
                cands = [c for c in cands if c < hi]
                if not cands:
                    break
                res = run_batch(pool, [{'case': cur, 'schedule': decisions[:c], 'opts': opts, 'L': c} for c in cands])
                used[0] += len(cands)
                ok = [(job['L'], msg) for (job, msg) in res if reproduces(msg)]
                if ok:
                    L, m = min(ok, key=lambda x: x[0])
                    hi = L
                    best_msg = m
                    bad = [c for c in cands if c < L]
                    lo = (max(bad) + 1) if bad else lo
                    if not bad:
                        break
                else:
                    lo = max(cands) + 1
            schedule = decisions[:hi]
            cur_msg = best_msg
            log('  shrink: schedule %d -> %d decisions' % (len(decisions), hi))
    return cur, schedule, cur_msg, used[0], True


def main(argv=None):
    ap = argparse.ArgumentParser()
    ap.add_argument('check')
    ap.add_argument('--tier', default=os.environ.get('VERIF_TIER', 'quick'))
    ap.add_argument('--replay')
    ap.add_argument('--seed', type=int, default=None)
    ap.add_argument('--runs', type=int, default=None)
    ap.add_argument('--budget', type=float, default=None, help='wall seconds for the search phase')
    ap.add_argument('--workers', type=int, default=None)
    ap.add_argument('--first', type=int, default=0, help='index of first run (to continue a sweep)')
    ap.add_argument('--no-evidence', action='store_true')
    ap.add_argument('--merge-evidence', action='store_true', help='add this run to the evidence file another check of the same property has just written')
    ap.add_argument('--no-shrink', action='store_true')
    ap.add_argument('--property', help='judge this property instead of the check module\'s own (triage aid)')
    ap.add_argument('--survey', action='store_true', help='explore the whole budget, list every violation signature of every property, no shrinking, exit 0')
    ap.add_argument('--log', help='with --replay: write the repository log of the run to this file')
    ap.add_argument('--verbose', '-v', action='store_true')
    ap.add_argument('--digests', help='write {index: [digest, abstract, vtime, nviol]} of every run to this file (determinism selftest)')
    args = ap.parse_args(argv)

    sys.path.insert(0, VERIF)
    spec = importlib.import_module('checks.' + args.check)
    prop = args.property or spec.PROPERTY
    modname = 'checks.' + args.check
    tier = args.tier if args.tier in ('quick', 'thorough') else 'quick'
    base_seed = args.seed if args.seed is not None else int(os.environ.get('VERIF_SEED', '0') or 0)
    tiercfg = spec.TIERS[tier]
    nruns = args.runs if args.runs is not None else tiercfg['runs']
    budget = args.budget if args.budget is not None else tiercfg['budget_s']
    nworkers = args.workers or int(os.environ.get('VERIF_WORKERS', '0') or 0) or min(16, os.cpu_count() or 4)
    t0 = time.time()

    def log(s):
        print(s, flush=True)

    findings = load_known_findings()

    if args.replay:
        with open(args.replay) as f:
            rp = json.load(f)
        prop = rp.get('property', prop)
        if rp.get('check') and rp['check'] != args.check:
            # a property can be served by more than one check module; the replay file knows which one produced it
            args.check = rp['check']
            spec = importlib.import_module('checks.' + args.check)
            modname = 'checks.' + args.check
            prop = rp.get('property', prop)
        extra = {'VERIF_LOG': args.log} if args.log else None
        pool = Pool(modname, 1, extra_env=extra)
        try:
            res = run_batch(pool, [{'case': rp['case'], 'schedule': rp.get('schedule'), 'opts': rp.get('opts') or {}}])
        finally:
            pool.close()
        msg = res[0][1]
        if 'result' not in msg:
            log('HARNESS-ERROR %s' % msg.get('harness_error'))
            return 2
        vs = viols_of(msg, prop)
        same = [v for v in vs if v.get('sig') == rp['violation']['sig']]
        log('replay seed=%s digest=%s (recorded %s)' % (rp.get('seed'), msg['result'].get('digest'), rp.get('digest')))
        if rp.get('harness_version') and rp['harness_version'] != harness_version():
            log('note: this replay file was recorded by another version of the machinery (%s, now %s); the decision list '
                'is replayed as recorded, but events the harness itself adds may shift it' % (rp['harness_version'], harness_version()))
        for v in vs:
            log('  violation: %s' % json.dumps(v, default=repr)[:2000])
        if args.verbose:
            for e in msg['result'].get('events', []):
                log('   ' + json.dumps(e, default=repr))
        if same:
            log('VIOLATION property=%s replay=%s' % (prop, os.path.abspath(args.replay)))
            return 1
        log('replay did not reproduce the recorded violation')
        return 0

    log('check=%s property=%s tier=%s VERIF_SEED=%d runs<=%d budget=%.0fs workers=%d repo=%s' % (
        args.check, prop, tier, base_seed, nruns, budget, nworkers, os.environ.get('VERIF_REPO', '/repo')))
    pool = Pool(modname, nworkers)
    agg = spec.Aggregate() if hasattr(spec, 'Aggregate') else None
    stats = {'runs': 0, 'harness_errors': [], 'vtime': 0.0, 'steps': 0, 'wall_child': 0.0}
    digests = set()
    abstracts = set()
    counters = {}
    samples = []
    all_digests = {}
    survey = {}
    viol_groups = {}  # sig -> list of (job, msg, violation)
    opts = dict(tiercfg.get('opts') or {})

    def jobs():
        for i in range(args.first, args.first + nruns):
            s = derive_seed(base_seed, args.check, i)
            yield {'case': spec.gen_case(s, tier, i), 'schedule': None, 'opts': opts, 'seed': s, 'index': i}

    def on_result(job, msg):
        stats['runs'] += 1
        if 'result' not in msg:
            stats['harness_errors'].append({'seed': job['seed'], 'index': job['index'],
                                            'error': (msg.get('harness_error') or '')[-3000:]})
            return len(stats['harness_errors']) > 20
        r = msg['result']
        stats['vtime'] += r.get('vtime', 0.0)
        stats['steps'] += r.get('steps', 0)
        stats['wall_child'] += msg.get('wall', 0.0)
        if r.get('digest'):
            digests.add(r['digest'])
            all_digests[job['index']] = [r['digest'], r.get('abstract'), r.get('vtime'), len(r.get('violations', []))]
        if r.get('abstract'):
            if r['abstract'] not in abstracts:
                stats['units'] = stats.get('units', 0) + int(r.get('distinct_units', 0))
            abstracts.add(r['abstract'])
        for k, v in (r.get('counters') or {}).items():
            counters[k] = counters.get(k, 0) + v
        if len(samples) < 2 and r.get('sample') is not None:
            samples.append({'seed': job['seed'], 'index': job['index'], 'sample': r['sample']})
        for v in viols_of(msg, prop):
            viol_groups.setdefault(v.get('sig'), []).append((job, msg, v))
        if args.survey:
            for v in r.get('violations', []):
                survey.setdefault((v.get('property'), v.get('sig')), []).append(job['index'])
            return time.time() - t0 > budget
        if args.verbose:
            log('run %d seed=%d wall=%.1fs vtime=%.0f viol=%s' % (job['index'], job['seed'], msg.get('wall', 0),
                                                                  r.get('vtime', 0), [v.get('sig') for v in r.get('violations', [])]))
        if time.time() - t0 > budget:
            return True
        # stop early once an unlisted violation is in hand: the remaining budget goes to minimising it
        if any(finding_for(findings, prop, s) is None for s in viol_groups):
            return True
        return False

    rc = 0
    try:
        pool.run(jobs(), on_result)
        t_search = time.time() - t0
        if args.survey and args.digests:
            write_json(args.digests, all_digests)
        if args.survey:
            for (p_, sig), idxs in sorted(survey.items(), key=lambda kv: (str(kv[0][0]), -len(kv[1]))):
                log('SURVEY %s %-60s %5d runs  e.g. index %s' % (p_, sig, len(idxs), idxs[:6]))
            log('survey: runs=%d wall=%.1fs harness_errors=%d counters=%s' % (
                stats['runs'], t_search, len(stats['harness_errors']), json.dumps({k: v for k, v in sorted(counters.items()) if k.startswith('probe.') or k.startswith('stop.') or k == 'invalid_program'})))
            for he in stats['harness_errors'][:3]:
                log('HARNESS-ERROR seed=%s index=%s %s' % (he['seed'], he['index'], he['error'][-1500:]))
            return 0
        new_viol = []
        known_hit = {}
        for sig, lst in sorted(viol_groups.items(), key=lambda kv: str(kv[0])):
            f = finding_for(findings, prop, sig)
            if f is not None:
                known_hit[sig] = (f, len(lst), lst[0])
            else:
                new_viol.append((sig, lst))
        for f in findings:
            if f.get('property') != prop or f.get('status') != 'open':
                continue
            hit = known_hit.get(f.get('sig'))
            log('KNOWN-FINDING: property=%s %s [sig=%s; %s]' % (
                prop, f.get('short') or f.get('what', ''), f.get('sig'),
                ('seen in %d of %d runs of this batch, e.g. seed %d' % (hit[1], stats['runs'], hit[2][0]['seed']))
                if hit else 'not hit by this batch'))
        replays = []
        for sig, lst in new_viol:
            job, msg, v = lst[0]
            log('violation sig=%s in %d run(s); first seed=%d index=%d: %s' % (
                sig, len(lst), job['seed'], job['index'], json.dumps(v.get('detail'), default=repr)[:1500]))
            case, schedule, fmsg = job['case'], None, msg
            reproduced = True
            if not args.no_shrink:
                case, schedule, fmsg, used, reproduced = minimise(
                    pool, spec, prop, sig, job['case'], opts, tiercfg.get('shrink_runs', 200), log)
                if not reproduced:
                    log('HARNESS-ERROR violation did not reproduce on re-run (nondeterminism) sig=%s seed=%d' % (sig, job['seed']))
                    rc = 2
                    case, schedule, fmsg = job['case'], None, msg
            fr = fmsg.get('result') or {}
            fv = [x for x in fr.get('violations', []) if x.get('property') == prop and x.get('sig') == sig]
            rp = {'property': prop, 'check': args.check, 'seed': job['seed'], 'index': job['index'],
                  'harness_version': harness_version(),
                  'verif_seed': base_seed, 'case': case, 'schedule': schedule, 'opts': opts,
                  'digest': fr.get('digest'), 'violation': (fv[0] if fv else v),
                  'events': fr.get('events', []), 'original_case': job['case']}
            path = os.path.join(VERIF, 'replays', '%s-%s-%d-%s.json' % (
                prop, args.check, job['seed'], hashlib.sha1(str(sig).encode()).hexdigest()[:6]))
            write_json(path, rp)
            replays.append(path)
            log('VIOLATION property=%s replay=%s' % (prop, path))
            if rc == 0:
                rc = 1
        if stats['harness_errors']:
            for he in stats['harness_errors'][:5]:
                log('HARNESS-ERROR seed=%s index=%s %s' % (he['seed'], he['index'], he['error'][-1500:]))
            rc = 2
        wall = time.time() - t0
        if args.digests:
            write_json(args.digests, all_digests)
        if not args.no_evidence:
            cov = {
                'evaluations': stats['runs'],
                'distinct_nontrivial': stats.get('units') or (len(abstracts) if abstracts else len(digests)),
                'rule': spec.RULE,
                'samples': samples or [{'note': 'no run completed'}],
                'seeds': {'verif_seed': base_seed, 'first_index': args.first, 'derivation': 'sha256(VERIF_SEED|check|i)[:7]'},
                'runs_per_hour': round(stats['runs'] / max(t_search, 1e-6) * 3600),
                'simulated_seconds': round(stats['vtime'], 1),
                'kernel_steps': stats['steps'],
                'distinct_schedule_digests': len(digests),
                'distinct_abstract_histories': len(abstracts),
                'fired': {k: v for k, v in sorted(counters.items()) if k.startswith('fault.')},
                'probes': {k: v for k, v in sorted(counters.items()) if k.startswith('probe.')},
                'other_counters': {k: v for k, v in sorted(counters.items())
                                   if not k.startswith('fault.') and not k.startswith('probe.')},
                'real_components': spec.REAL,
                'stubbed_components': spec.STUB,
                'known_findings_seen': [{'sig': s, 'runs': n} for s, (f, n, _) in known_hit.items()],
                'harness_errors': len(stats['harness_errors']),
                'workers': nworkers,
                'exhaustive': False,
            }
            if agg is not None:
                pass
            ev = {'property_id': prop, 'tier': tier, 'seed': base_seed, 'level': spec.LEVEL, 'coverage': cov,
                  'assumptions': spec.ASSUMPTIONS, 'wall_s': round(wall, 2), 'violations': len(new_viol)}
            evpath = os.path.join(VERIF, 'evidence', '%s.json' % prop)
            if args.merge_evidence and os.path.exists(evpath):
                try:
                    prev = json.load(open(evpath))
                    pc = prev['coverage']
                    part_prev = pc.pop('parts', None) or [{'check': pc.get('check', '?'), 'evaluations': pc['evaluations'],
                                                           'distinct_nontrivial': pc['distinct_nontrivial'], 'rule': pc['rule'],
                                                           'wall_s': prev.get('wall_s')}]
                    part_now = {'check': args.check, 'evaluations': cov['evaluations'],
                                'distinct_nontrivial': cov['distinct_nontrivial'], 'rule': cov['rule'], 'wall_s': ev['wall_s'],
                                'fired': cov['fired'], 'probes': cov['probes'], 'simulated_seconds': cov['simulated_seconds']}
                    merged = dict(pc)
                    merged['evaluations'] = pc['evaluations'] + cov['evaluations']
                    merged['distinct_nontrivial'] = pc['distinct_nontrivial'] + cov['distinct_nontrivial']
                    merged['rule'] = pc['rule'] + ' || ' + cov['rule']
                    merged['samples'] = (pc.get('samples') or [])[:1] + (cov.get('samples') or [])[:1]
                    merged['simulated_seconds'] = pc.get('simulated_seconds', 0) + cov['simulated_seconds']
                    merged['kernel_steps'] = pc.get('kernel_steps', 0) + cov['kernel_steps']
                    for k in ('fired', 'probes', 'other_counters'):
                        d = dict(pc.get(k) or {})
                        for a, b in (cov.get(k) or {}).items():
                            d[a] = d.get(a, 0) + b
                        merged[k] = d
                    merged['real_components'] = sorted(set(pc.get('real_components', [])) | set(cov['real_components']))
                    merged['stubbed_components'] = sorted(set(pc.get('stubbed_components', [])) | set(cov['stubbed_components']))
                    merged['harness_errors'] = pc.get('harness_errors', 0) + cov['harness_errors']
                    merged['parts'] = part_prev + [part_now]
                    ev['coverage'] = merged
                    ev['wall_s'] = round((prev.get('wall_s') or 0) + ev['wall_s'], 2)
                    ev['violations'] = (prev.get('violations') or 0) + ev['violations']
                    ev['assumptions'] = sorted(set(prev.get('assumptions') or []) | set(ev['assumptions']))
                except Exception as e:
                    log('could not merge evidence (%r); writing this run only' % (e,))
            ev['coverage']['check'] = ev['coverage'].get('check', args.check)
            write_json(evpath, ev)
        log('done: runs=%d distinct=%d vtime=%.0fs wall=%.1fs violations=%d known=%d harness_errors=%d rc=%d' % (
            stats['runs'], len(abstracts) or len(digests), stats['vtime'], wall, len(new_viol), len(known_hit),
            len(stats['harness_errors']), rc))
    finally:
        pool.close()
    return rc


if __name__ == '__main__':
    sys.exit(main())
