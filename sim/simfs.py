"""SimFS: the disk as the persistence properties see it.

builtins.open is wrapped for write-mode opens of paths under a watched root. The proxy keeps written data in its own
buffer and hands it to the real file only on flush/close, so that a simulated process death loses un-flushed data
exactly as a killed process does. Write boundaries are numbered: open (mode 'w' has already truncated the target), each
write/writelines, flush, close, and each os.rename/os.replace/os.remove/os.unlink on a watched path. One fault can be
armed on boundary k:

  crash-before / crash-after : SimCrash (BaseException) before / after the operation takes effect
  crash-torn                 : a seeded prefix of the buffered data reaches the file, then SimCrash (what a buffered
                               writer's automatic flush followed by a kill leaves behind)
  eio / enospc               : OSError from that call (for a write, a seeded prefix may already have been accepted)
  rename-fail                : OSError from os.rename/os.replace

Fault model: process death and I/O errors, not power loss (data handed to the kernel survives).
"""
import builtins
import errno
import os
import random


class SimCrash(BaseException):
    pass


_orig_open = builtins.open
_orig_rename = os.rename
_orig_replace = os.replace
_orig_remove = os.remove
_orig_unlink = os.unlink

FS = None


class _Proxy:
    def __init__(self, fs, real, path, mode):
        self._fs = fs
        self._real = real
        self._path = path
        self._mode = mode
        self._buf = []
        self._closed = False

    def __getattr__(self, name):
        return getattr(self._real, name)

    def _data(self):
        if 'b' in self._mode:
            return b''.join(self._buf)
        return ''.join(self._buf)

    def _spill(self, data):
        if data:
            self._real.write(data)
        self._real.flush()
        self._buf = []

    def write(self, s):
        act = self._fs.boundary('write', self._path)
        if act in ('crash-before',):
            self._fs.crash(self)
        if act in ('eio', 'enospc'):
            if self._fs.rng.random() < 0.5:
                self._buf.append(s[:self._fs.rng.randrange(len(s) + 1)])  # short write
            raise OSError(errno.EIO if act == 'eio' else errno.ENOSPC, 'simulated I/O error', self._path)
        self._buf.append(s)
        if act == 'crash-torn':
            d = self._data()
            self._spill(d[:self._fs.rng.randrange(len(d) + 1)])
            self._fs.crash(self)
        if act == 'crash-after':
            self._fs.crash(self)
        return len(s)

    def writelines(self, lines):
        for ln in lines:
            self.write(ln)

    def flush(self):
        act = self._fs.boundary('flush', self._path)
        if act == 'crash-before':
            self._fs.crash(self)
        if act in ('eio', 'enospc'):
            raise OSError(errno.EIO if act == 'eio' else errno.ENOSPC, 'simulated I/O error', self._path)
        if act == 'crash-torn':
            d = self._data()
            self._spill(d[:self._fs.rng.randrange(len(d) + 1)])
            self._fs.crash(self)
        self._spill(self._data())
        if act == 'crash-after':
            self._fs.crash(self)

    def close(self):
        if self._closed:
            return
        act = self._fs.boundary('close', self._path)
        if act == 'crash-before':
            self._fs.crash(self)
        if act == 'crash-torn':
            d = self._data()
            self._spill(d[:self._fs.rng.randrange(len(d) + 1)])
            self._fs.crash(self)
        if act in ('eio', 'enospc'):
            d = self._data()
            self._spill(d[:self._fs.rng.randrange(len(d) + 1)])
            self._closed = True
            self._real.close()
            raise OSError(errno.EIO if act == 'eio' else errno.ENOSPC, 'simulated I/O error on close', self._path)
        self._spill(self._data())
        self._closed = True
        self._real.close()
        if act == 'crash-after':
            self._fs.crash(None)

    def __enter__(self):
        return self

    def __exit__(self, et, ev, tb):
        if et is not None and issubclass(et, SimCrash):
            return False  # the process is dead: nothing is flushed
        self.close()
        return False

    def __iter__(self):
        return iter(self._real)

    def abandon(self):
        """process death: drop buffered data, release the descriptor"""
        self._buf = []
        self._closed = True
        try:
            self._real.close()
        except Exception:
            pass


class SimFS:
    def __init__(self, root, seed=0):
        self.roots = [os.path.realpath(r) for r in (root if isinstance(root, (list, tuple)) else [root])]
        self.root = self.roots[0]
        self.hook = None  # optional callable(kind, path) invoked at every boundary (in-situ crash placement)
        self.rng = random.Random(seed)
        self.count = 0
        self.log = []
        self.armed = None  # (k, kind)
        self.fired = None
        self.open_proxies = []
        self.enabled = True

    def watched(self, path):
        try:
            if not isinstance(path, str):
                return False
            rp = os.path.realpath(path)
            return any(rp.startswith(r) for r in self.roots)
        except Exception:
            return False

    def reset(self, arm=None, seed=None):
        self.count = 0
        self.log = []
        self.armed = arm
        self.fired = None
        self.open_proxies = []
        if seed is not None:
            self.rng = random.Random(seed)

    def boundary(self, kind, path):
        self.count += 1
        self.log.append((self.count, kind, os.path.basename(path)))
        if self.hook is not None:
            self.hook(kind, path)
        if self.armed is not None and self.armed[0] == self.count:
            fk = self.armed[1]
            if fk == 'rename-fail' and kind not in ('rename', 'replace'):
                return None
            if fk in ('eio', 'enospc', 'crash-torn') and kind in ('rename', 'replace', 'remove', 'open'):
                if fk == 'crash-torn':
                    fk = 'crash-before'
                elif kind != 'open':
                    return None
            self.fired = (self.count, kind, fk, os.path.basename(path))
            return fk
        return None

    def crash(self, proxy):
        for p in self.open_proxies:
            p.abandon()
        raise SimCrash()


def _sim_open(file, mode='r', *a, **kw):
    fs = FS
    if fs is None or not fs.enabled or not isinstance(mode, str) or not any(c in mode for c in 'wax+') \
            or not fs.watched(file):
        return _orig_open(file, mode, *a, **kw)
    act = fs.boundary('open', file)
    if act == 'crash-before':
        fs.crash(None)
    if act in ('eio', 'enospc'):
        raise OSError(errno.EIO if act == 'eio' else errno.ENOSPC, 'simulated I/O error on open', file)
    real = _orig_open(file, mode, *a, **kw)
    p = _Proxy(fs, real, file, mode)
    fs.open_proxies.append(p)
    if act in ('crash-after',):
        fs.crash(p)
    return p


def _wrap2(orig, kind):
    def f(src, dst, *a, **kw):
        fs = FS
        if fs is None or not fs.enabled or not (fs.watched(src) or fs.watched(dst)):
            return orig(src, dst, *a, **kw)
        act = fs.boundary(kind, dst)
        if act == 'crash-before':
            fs.crash(None)
        if act == 'rename-fail':
            raise OSError(errno.EXDEV, 'simulated rename failure', src)
        r = orig(src, dst, *a, **kw)
        if act == 'crash-after':
            fs.crash(None)
        return r
    return f


def _wrap1(orig, kind):
    def f(path, *a, **kw):
        fs = FS
        if fs is None or not fs.enabled or not fs.watched(path):
            return orig(path, *a, **kw)
        act = fs.boundary(kind, path)
        if act == 'crash-before':
            fs.crash(None)
        r = orig(path, *a, **kw)
        if act == 'crash-after':
            fs.crash(None)
        return r
    return f


def install(root, seed=0):
    global FS
    FS = SimFS(root, seed)
    builtins.open = _sim_open
    os.rename = _wrap2(_orig_rename, 'rename')
    os.replace = _wrap2(_orig_replace, 'replace')
    os.remove = _wrap1(_orig_remove, 'remove')
    os.unlink = _wrap1(_orig_unlink, 'remove')
    return FS
