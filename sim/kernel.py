"""Deterministic baton-passing thread kernel with a virtual clock.

Every thread the system under test creates is a real OS thread, but exactly one of them holds the
*baton* at any time.  A thread gives the baton up only inside this module: when it blocks on a
simulated primitive, when it is pre-empted at a yield point, when it is stalled, or when it ends.
The thread that yields picks its successor from the decision stream (seeded PRNG, or a recorded
decision list when replaying), so which thread runs next is never decided by the OS.

One integer (the seed) decides every choice.  All decisions go through Kernel.decide()/decide_p()
and are recorded; a replay supplies the recorded list and, once it is exhausted, the *default*
decision 0 (= FIFO successor, no pre-emption, no stall), which is what the schedule minimiser
exploits: it truncates the list.

Nothing in here reads a real clock or really sleeps.
"""
import _thread
import gc
import os
import heapq
import random
import sys
import hashlib
import traceback

_real_allocate = _thread.allocate_lock
_real_start = _thread.start_new_thread
_real_get_ident = _thread.get_ident

import threading as _threading
import time as _time
import datetime as _datetime

_real_sleep = _time.sleep
_real_time = _time.time
_real_monotonic = _time.monotonic
_real_perf_counter = _time.perf_counter
_RealDateTime = _datetime.datetime
_RealThread = _threading.Thread
_RealRLock = _threading.RLock
_RealLock = _threading.Lock
_orig_current_thread = _threading.current_thread


class SimKilled(BaseException):
    """Delivered to parked threads of a run that was crashed (process death fault)."""


class SimStop(BaseException):
    """Raised in the workload (adopted main) thread when a cap is hit or a deadlock is detected.

    .reason is 'steps' | 'vtime' | 'deadlock'."""

    def __init__(self, reason, detail=None):
        BaseException.__init__(self, reason, detail)
        self.reason = reason
        self.detail = detail


STALL_DURATIONS = (0.1, 0.7, 2.5, 6.0, 12.0, 40.0)


GC_EVERY = 256
GC_AT_YIELD_POINTS = os.environ.get('VERIF_GC_AT_YIELD', '0') == '1'
KDEBUG = os.environ.get('VERIF_KDEBUG')
KSWITCHLOG = os.environ.get('VERIF_KSWITCHLOG')
KNOWFROM = float(os.environ.get('VERIF_KNOWFROM', '1e18'))


class Kernel:
    EPOCH0 = 1893456000.0  # 2030-01-01 UTC: nothing written behind our back can look newer

    def __init__(self, seed, preempt_p=0.1, stall_p=0.0, max_stalls=12, max_steps=3_000_000,
                 max_vtime=50_000.0, schedule=None):
        self.seed = seed
        self.rng = random.Random(seed)
        self.clock = 0.0
        self.seq = 0
        self.threads = []  # all SimThreads, creation order
        self.runnable = []
        self.timers = []  # heap of (time, seq, thread, token)
        self.current = None
        self.steps = 0
        self.switches = 0
        self.max_steps = max_steps
        self.max_vtime = max_vtime
        self.preempt_p = preempt_p
        self.stall_p = stall_p
        self.max_stalls = max_stalls
        self.stalls = 0
        self.stall_time = 0.0
        self.preempts = 0
        self.killing = False
        self.stop_reason = None
        self.stop_detail = None
        self.trace = []  # harness-level notes: thread exceptions etc.
        self.active = False
        self.tls = _threading.local()
        self.main = None
        self.digest = hashlib.sha256()
        self.decisions = []
        self._replay = list(schedule) if schedule is not None else None
        self._ri = 0
        self.nthreads = 0
        self.thread_counter = 0
        self.pool_counter = 0
        self.uuid_counter = 0
        self.preempt_hook = None  # optional callable for reach probes
        self.pool_delay_p = 0.0  # "slow pool worker" fault: a queued pool task is picked up late
        self.pool_delays = 0
        self.slow_pool = None  # (n, p): tasks of the n-th pool created in this run start 6-40 s late with probability p
        self.slow_pool_delays = 0
        self.slow_thread = None
        self._gc_tick = 0
        self.focus_p = 0.0
        self.focus_preempts = 0

    # --- decisions -------------------------------------------------------------------------
    def decide(self, n):
        """an int in [0, n); recorded"""
        if n <= 1:
            return 0
        if self._replay is not None:
            if self._ri < len(self._replay):
                v = self._replay[self._ri] % n
                self._ri += 1
            else:
                v = 0
        else:
            v = self.rng.randrange(n)
        self.decisions.append(v)
        return v

    def decide_p(self, p):
        """True with probability p; recorded as 0/1"""
        if p <= 0.0:
            return False
        if self._replay is not None:
            if self._ri < len(self._replay):
                v = 1 if self._replay[self._ri] else 0
                self._ri += 1
            else:
                v = 0
        else:
            v = 1 if self.rng.random() < p else 0
        self.decisions.append(v)
        return bool(v)

    # --- time ------------------------------------------------------------------------------
    def now(self):
        self.clock += 1e-6
        if KSWITCHLOG and self.clock > KNOWFROM:
            fr = [f for f in traceback.extract_stack()[:-1] if '/sim/' not in f.filename and '/reactivex/' not in f.filename][-6:]
            with open(KSWITCHLOG + '.%d' % os.getpid(), 'a') as fh:
                fh.write('  NOW %.6f %s\n' % (self.clock, ' < '.join('%s:%d:%s' % (f.filename.split('/')[-1], f.lineno, f.name) for f in reversed(fr))))
        return self.EPOCH0 + self.clock

    def peek(self):
        return self.EPOCH0 + self.clock

    # --- threads ---------------------------------------------------------------------------
    def cur(self):
        return getattr(self.tls, 'sim', None)

    def adopt_main(self, name='MainThread'):
        t = SimThread(target=None, name=name)
        t._adopted = True
        t._state = 'running'
        t._ident = _real_get_ident()
        self.tls.sim = t
        self.current = t
        self.main = t
        self.threads.append(t)
        self.active = True
        return t

    def _request_stop(self, reason, detail=None):
        if self.stop_reason is None:
            self.stop_reason = reason
            self.stop_detail = detail

    def _pick(self):
        """Choose the next thread to run, advancing the clock when nothing is runnable.
        Never raises: on a cap or a deadlock it returns the main thread with stop_reason set."""
        main = self.main
        if self.stop_reason is None:
            if self.steps > self.max_steps:
                self._request_stop('steps')
            elif self.clock > self.max_vtime:
                self._request_stop('vtime')
        if self.stop_reason is not None and main._state != 'done':
            # hand the baton to the workload thread so it can raise SimStop
            if main._state == 'runnable':
                self.runnable.remove(main)
            elif main._state == 'blocked':
                main._wait_token += 1
                main._wake_reason = 'stop'
            return main
        while True:
            if self.runnable:
                i = self.decide(len(self.runnable))
                return self.runnable.pop(i)
            woke = False
            while self.timers:
                t, _, th, token = heapq.heappop(self.timers)
                if th._wait_token != token or th._state != 'blocked':
                    continue  # stale
                if t > self.clock:
                    self.clock = t
                th._wake_reason = 'timeout'
                th._unblock()
                woke = True
                break
            if woke:
                if self.clock > self.max_vtime:
                    self._request_stop('vtime')
                    return self._pick()
                continue
            self._request_stop('deadlock', [(x.name, repr(x._blocked_on)) for x in self.threads
                                            if x._state == 'blocked'][:40])
            if main._state == 'blocked':
                main._wait_token += 1
                main._wake_reason = 'stop'
            return main

    def switch(self, me):
        """me has already been put in the right state (runnable list, blocked or done)."""
        self.steps += 1
        nxt = self._pick()
        self.digest.update(('%s@%.6f;' % (nxt.name, self.clock)).encode())
        if KSWITCHLOG:  # triage aid for determinism: the sequence of switches that the digest is made of
            with open(KSWITCHLOG + '.%d' % os.getpid(), 'a') as fh:
                fh.write('%s@%.6f\n' % (nxt.name, self.clock))
        if nxt is me:
            me._state = 'running'
            self.current = me
        else:
            self.switches += 1
            nxt._state = 'running'
            self.current = nxt
            nxt._baton.release()
            if me is None:
                return
            me._baton.acquire()
            if self.killing and not me._adopted:
                raise SimKilled()
        if me._adopted and self.stop_reason is not None:
            raise SimStop(self.stop_reason, self.stop_detail)

    def yield_point(self, kind=None):
        me = self.cur()
        if me is None or not self.active or self.killing:
            return
        self._gc_tick += 1
        if GC_AT_YIELD_POINTS and self._gc_tick % GC_EVERY == 0:
            gc.collect()
        sp = getattr(me, '_stall_p', None)  # a slow thread (per-thread stall probability) or the run's stall rate
        if sp is None:
            st = self.slow_thread  # (substring of the thread's name, p): one kind of thread is slow in this run
            sp = st[1] if st and st[0] in me.name else self.stall_p
        if sp > 0.0 and self.stalls < self.max_stalls and not me._nostall and self.decide_p(sp):
            d = STALL_DURATIONS[self.decide(len(STALL_DURATIONS))]
            self.stalls += 1
            self.stall_time += d
            if KDEBUG:  # triage aid: who was held up, where and for how long (never draws from the PRNG or the clock)
                import traceback
                fr = [f for f in traceback.extract_stack()[:-1] if '/sim/' not in f.filename][-3:]
                with open(KDEBUG, 'a') as fh:
                    fh.write('%.6f stall %ss %s at %s\n' % (self.clock, d, getattr(me, 'name', '?'),
                                                           ' < '.join('%s:%d:%s' % (f.filename.split('/')[-1], f.lineno, f.name) for f in reversed(fr))))
            self.block(me, ('stall', d), d)
            return
        if not self.runnable:
            return
        if self.decide_p(self.focus_p if kind == 'focus' else self.preempt_p):
            self.preempts += 1
            if kind == 'focus':
                self.focus_preempts += 1
            me._state = 'runnable'
            self.runnable.append(me)
            self.switch(me)

    def block(self, me, on, timeout=None):
        """Block the current thread until woken or until timeout (virtual seconds)."""
        if self.killing:
            raise SimKilled()
        me._state = 'blocked'
        me._blocked_on = on
        me._wait_token += 1
        me._wake_reason = None
        if timeout is not None:
            self.seq += 1
            heapq.heappush(self.timers, (self.clock + max(0.0, timeout), self.seq, me, me._wait_token))
        self.switch(me)
        me._blocked_on = None
        return me._wake_reason

    def freeze(self):
        """The run is over: the workload thread inspects the final state with no further scheduling."""
        sys.settrace(None)
        self.active = False

    def crash_now(self):
        """Process-death fault at the current instruction of the current thread: no simulated thread runs another
        step; the workload (adopted main) thread regains control with SimStop('crash') to inspect what survived."""
        me = self.cur()
        self.killing = True
        self._request_stop('crash')
        main = self.main
        if me is main:
            raise SimStop('crash', None)
        # hand the baton to the parked main thread; this thread dies without passing it on
        if main._state == 'runnable' and main in self.runnable:
            self.runnable.remove(main)
        main._wait_token += 1
        main._wake_reason = 'stop'
        main._state = 'running'
        self.current = main
        main._baton.release()
        raise SimKilled()


K = None  # the kernel of this process' current run


def new_kernel(seed, **kw):
    global K
    K = Kernel(seed, **kw)
    # The cyclic garbage collector is a scheduler of its own: it runs finalizers and weak-reference callbacks (reactivex
    # disposables, pools) whenever an allocation counter inherited from the worker's earlier jobs crosses a threshold.
    # From here on it runs only at yield points, every GC_EVERY-th one: a function of the run's own history.
    if GC_AT_YIELD_POINTS:
        gc.collect()
        gc.disable()
    return K


# --- optional pre-emption at Python function entries / lines of selected files ----------------
TRACE_FILES = ()
TRACE_FN = None


def make_trace(files, line_level=False, call_level=True, focus=()):
    files = frozenset(files)
    focus = frozenset(focus)

    def local(frame, event, arg):
        if event == 'line':
            K.yield_point('line')
        return local

    def local_focus(frame, event, arg):
        if event == 'line':
            K.yield_point('focus')
        return local_focus

    def tr(frame, event, arg):
        if event == 'call' and frame.f_code.co_filename in files:
            if frame.f_code.co_name in focus:
                # a function of this run's focus set: every line of it is a pre-emption point with a boosted
                # probability (Kernel.focus_p) - races inside a few critical sections are explored much more densely
                K.yield_point('focus')
                return local_focus
            if call_level:
                K.yield_point('call')
            return local if line_level else None
        return None

    return tr


def enable_trace(files, line_level=False, call_level=True, focus=()):
    global TRACE_FN
    TRACE_FN = make_trace(files, line_level, call_level, focus)
    sys.settrace(TRACE_FN)


class SimThread:
    def __init__(self, group=None, target=None, name=None, args=(), kwargs=None, *, daemon=None):
        k = K
        if k is not None:
            k.thread_counter += 1
            n = k.thread_counter
        else:
            n = 0
        self._target = target
        self._args = args
        self._kwargs = kwargs or {}
        self.name = name or ("Thread-%d" % n)
        self.daemon = bool(daemon)
        self._state = 'new'
        self._baton = _real_allocate()
        self._baton.acquire()
        self._joiners = []
        self._wait_token = 0
        self._wake_reason = None
        self._blocked_on = None
        self._adopted = False
        self._ident = None
        self._nostall = False

    @property
    def ident(self):
        return self._ident

    native_id = ident

    def getName(self):
        return self.name

    def setName(self, n):
        self.name = n

    def isDaemon(self):
        return self.daemon

    def setDaemon(self, d):
        self.daemon = d

    def run(self):
        if self._target is not None:
            self._target(*self._args, **self._kwargs)

    def _unblock(self):
        self._state = 'runnable'
        K.runnable.append(self)

    def _bootstrap(self):
        self._ident = _real_get_ident()
        self._baton.acquire()  # wait to be scheduled for the first time
        k = K
        k.tls.sim = self
        if TRACE_FN is not None:
            sys.settrace(TRACE_FN)
        try:
            if k.killing:
                raise SimKilled()
            try:
                self.run()
            except SimKilled:
                raise
            except BaseException:
                k.trace.append(('thread-exception', self.name, traceback.format_exc()))
        except SimKilled:
            pass
        finally:
            sys.settrace(None)
            self._state = 'done'
            if not k.killing:
                for j in self._joiners:
                    if j._state == 'blocked':
                        j._wake_reason = 'signalled'
                        j._unblock()
                self._joiners = []
                k.switch(None)  # never raises for me=None

    def start(self):
        if self._state != 'new':
            raise RuntimeError("threads can only be started once")
        k = K
        if k is None or not k.active:
            raise RuntimeError("SimThread.start() outside a simulation")
        self._state = 'runnable'
        k.threads.append(self)
        k.nthreads += 1
        k.runnable.append(self)
        _real_start(self._bootstrap, ())
        k.yield_point('start')

    def is_alive(self):
        return self._state not in ('new', 'done')

    isAlive = is_alive

    def join(self, timeout=None):
        me = K.cur()
        if self._state == 'done' or self._state == 'new':
            return
        self._joiners.append(me)
        K.block(me, ('join', self.name), timeout)
        if me in self._joiners:
            self._joiners.remove(me)


class SimTimer(SimThread):
    def __init__(self, interval, function, args=None, kwargs=None):
        super().__init__(name=None)
        self.interval = interval
        self.function = function
        self.args = args if args is not None else []
        self.kwargs = kwargs if kwargs is not None else {}
        self.finished = SimEvent()

    def cancel(self):
        self.finished.set()

    def run(self):
        self.finished.wait(self.interval)
        if not self.finished.is_set():
            self.function(*self.args, **self.kwargs)
        self.finished.set()


def _active():
    return K is not None and K.active


class SimLock:
    def __init__(self):
        self._owner = None
        self._waiters = []

    def acquire(self, blocking=True, timeout=-1):
        me = K.cur() if K is not None else None
        if me is not None:
            K.yield_point('acq')
        while self._owner is not None:
            if not blocking:
                return False
            if me is None or not K.active:
                raise RuntimeError("SimLock contended outside simulation")
            self._waiters.append(me)
            r = K.block(me, ('lock', id(self)), None if timeout is None or timeout < 0 else timeout)
            if r == 'timeout':
                if me in self._waiters:
                    self._waiters.remove(me)
                return False
        self._owner = me or 'nosim'
        return True

    def release(self):
        if self._owner is None:
            raise RuntimeError("release unlocked lock")
        self._owner = None
        if self._waiters:
            w = self._waiters.pop(K.decide(len(self._waiters)))
            w._wake_reason = 'signalled'
            w._unblock()
        if _active():
            K.yield_point('rel')

    def locked(self):
        return self._owner is not None

    __enter__ = acquire

    def __exit__(self, *a):
        self.release()

    def _at_fork_reinit(self):
        self._owner = None
        self._waiters = []


class SimRLock:
    def __init__(self):
        self._owner = None
        self._count = 0
        self._waiters = []

    def acquire(self, blocking=True, timeout=-1):
        me = (K.cur() if K is not None else None) or 'nosim'
        if self._owner is me:
            self._count += 1
            return True
        if me != 'nosim':
            K.yield_point('acq')
        while self._owner is not None:
            if not blocking:
                return False
            if me == 'nosim' or not K.active:
                raise RuntimeError("SimRLock contended outside simulation owner=%r" % (self._owner,))
            self._waiters.append(me)
            r = K.block(me, ('rlock', id(self)), None if timeout is None or timeout < 0 else timeout)
            if r == 'timeout':
                if me in self._waiters:
                    self._waiters.remove(me)
                return False
        self._owner = me
        self._count = 1
        return True

    def release(self):
        me = (K.cur() if K is not None else None) or 'nosim'
        if self._owner is not me:
            raise RuntimeError("cannot release un-acquired lock")
        self._count -= 1
        if self._count == 0:
            self._owner = None
            if self._waiters:
                w = self._waiters.pop(K.decide(len(self._waiters)))
                w._wake_reason = 'signalled'
                w._unblock()
            if _active():
                K.yield_point('rel')

    __enter__ = acquire

    def __exit__(self, *a):
        self.release()

    # Condition support
    def _is_owned(self):
        me = (K.cur() if K is not None else None) or 'nosim'
        return self._owner is me

    def _release_save(self):
        st = (self._owner, self._count)
        self._count = 1
        self.release()
        return st

    def _acquire_restore(self, st):
        self.acquire()
        self._owner, self._count = st

    def _at_fork_reinit(self):
        self._owner = None
        self._count = 0
        self._waiters = []


class SimCondition:
    def __init__(self, lock=None):
        if lock is None:
            lock = SimRLock()
        self._lock = lock
        self.acquire = lock.acquire
        self.release = lock.release
        self._waiters = []

    def __enter__(self):
        return self._lock.__enter__()

    def __exit__(self, *a):
        return self._lock.__exit__(*a)

    def wait(self, timeout=None):
        me = K.cur()
        if isinstance(self._lock, SimRLock):
            st = self._lock._release_save()
        else:
            self._lock.release()
            st = None
        self._waiters.append(me)
        try:
            r = K.block(me, ('cond', id(self)), timeout)
        finally:
            if me in self._waiters:
                self._waiters.remove(me)
        if st is not None:
            self._lock._acquire_restore(st)
        else:
            self._lock.acquire()
        return r != 'timeout'

    def wait_for(self, predicate, timeout=None):
        endtime = None
        result = predicate()
        while not result:
            if timeout is not None:
                if endtime is None:
                    endtime = K.clock + timeout
                waittime = endtime - K.clock
                if waittime <= 0:
                    break
                self.wait(waittime)
            else:
                self.wait(None)
            result = predicate()
        return result

    def notify(self, n=1):
        for _ in range(n):
            if not self._waiters:
                break
            w = self._waiters.pop(K.decide(len(self._waiters)))
            w._wake_reason = 'signalled'
            w._unblock()
        if _active():
            K.yield_point('notify')

    def notify_all(self):
        self.notify(len(self._waiters))

    notifyAll = notify_all


class SimEvent:
    def __init__(self):
        self._flag = False
        self._waiters = []

    def is_set(self):
        return self._flag

    isSet = is_set

    def set(self):
        self._flag = True
        ws, self._waiters = self._waiters, []
        for w in ws:
            if w._state == 'blocked':
                w._wake_reason = 'signalled'
                w._unblock()
        if _active():
            K.yield_point('set')

    def clear(self):
        self._flag = False

    def wait(self, timeout=None):
        if self._flag:
            if _active():
                K.yield_point('wait')
            return True
        me = K.cur() if K is not None else None
        if me is None or not K.active:
            raise RuntimeError("SimEvent.wait outside simulation")
        self._waiters.append(me)
        try:
            K.block(me, ('event', id(self)), timeout)
        finally:
            if me in self._waiters:
                self._waiters.remove(me)
        return self._flag

    def _at_fork_reinit(self):
        pass


class SimSemaphore:
    def __init__(self, value=1):
        self._value = value
        self._cond = SimCondition(SimLock())

    def acquire(self, blocking=True, timeout=None):
        with self._cond:
            while self._value == 0:
                if not blocking:
                    return False
                if not self._cond.wait(timeout):
                    return False
            self._value -= 1
            return True

    __enter__ = acquire

    def release(self, n=1):
        with self._cond:
            self._value += n
            self._cond.notify(n)

    def __exit__(self, *a):
        self.release()


class SimFuture:
    def __init__(self):
        self._done = False
        self._cancelled = False

    def cancel(self):
        if self._done:
            return False
        self._cancelled = True
        return True

    def cancelled(self):
        return self._cancelled

    def done(self):
        return self._done or self._cancelled


class SimThreadPoolExecutor:
    """FIFO queue + up to max_workers SimThread workers (so ThreadPoolScheduler(1) still serialises)."""

    def __init__(self, max_workers=None, thread_name_prefix='', initializer=None, initargs=()):
        k = K
        if k is not None:
            k.pool_counter += 1
            n = k.pool_counter
        else:
            SimThreadPoolExecutor._static_n = getattr(SimThreadPoolExecutor, '_static_n', 0) + 1
            n = 1000 + SimThreadPoolExecutor._static_n
        self._max = max_workers or 8
        self._queue = []
        self._idle = []
        self._workers = []
        self._prefix = thread_name_prefix or ('Pool%d' % n)
        self._n = n
        if KSWITCHLOG:
            fr = [f for f in traceback.extract_stack()[:-1]][-4:]
            with open(KSWITCHLOG + '.%d' % os.getpid(), 'a') as fh:
                fh.write('POOLCREATE %s by %s\n' % (self._prefix, ' < '.join('%s:%d:%s' % (f.filename.split('/')[-1], f.lineno, f.name) for f in reversed(fr))))
        self._shutdown = False

    def submit(self, fn, *args, **kwargs):
        fut = SimFuture()
        self._queue.append((fut, fn, args, kwargs))
        if self._idle:
            w = self._idle.pop(0)
            w._wake_reason = 'signalled'
            w._unblock()
            if _active():
                K.yield_point('submit')
        elif len(self._workers) < self._max:
            t = SimThread(target=self._worker, name='%s_%d' % (self._prefix, len(self._workers)), daemon=True)
            self._workers.append(t)
            t.start()
        return fut

    def _worker(self):
        me = K.cur()
        while True:
            while not self._queue:
                if self._shutdown:
                    return
                self._idle.append(me)
                K.block(me, ('pool-idle', self._prefix), None)
            fut, fn, args, kwargs = self._queue.pop(0)
            if fut._cancelled:
                continue
            k = K
            if k.pool_delay_p > 0.0 and k.pool_delays < 40 and k.decide_p(k.pool_delay_p):
                # the worker is busy elsewhere / descheduled: this task (a callback, a subscription) starts late, which
                # reorders it against chains that run on other threads
                d = STALL_DURATIONS[k.decide(4)]
                k.pool_delays += 1
                k.stall_time += d
                k.block(me, ('pool-delay', d), d)
            elif k.slow_pool and k.slow_pool[0] == self._n and k.pool_delays < 40 and k.decide_p(k.slow_pool[1]):
                # "slow node" aimed at one scheduler: the n-th pool of the run (in creation order) is held up for a long
                # time now and then, so what it delivers (state emissions, notifications) arrives late and in bursts
                d = STALL_DURATIONS[3 + k.decide(3)]
                k.pool_delays += 1
                k.slow_pool_delays += 1
                k.stall_time += d
                k.block(me, ('pool-delay', d), d)
            try:
                fn(*args, **kwargs)
            except SimKilled:
                raise
            except BaseException:
                K.trace.append(('pool-exception', me.name, traceback.format_exc()))
            fut._done = True

    def shutdown(self, wait=True, cancel_futures=False):
        self._shutdown = True


def sim_sleep(secs):
    me = K.cur() if K is not None else None
    if me is None or not K.active:
        return  # outside a simulation a sleep is a no-op
    K.block(me, ('sleep', secs), secs)


def sim_time():
    if K is None:
        return Kernel.EPOCH0
    return K.now()


def sim_monotonic():
    if K is None:
        return 0.0
    return K.now() - Kernel.EPOCH0


def sim_time_ns():
    return int(sim_time() * 1e9)


class _DTMeta(type):
    def __instancecheck__(cls, inst):
        return isinstance(inst, _RealDateTime)

    def __subclasscheck__(cls, sub):
        return issubclass(sub, _RealDateTime)


class SimDateTime(_RealDateTime, metaclass=_DTMeta):
    @classmethod
    def now(cls, tz=None):
        t = sim_time()
        if tz is None:
            return cls.fromtimestamp(t)
        return cls.fromtimestamp(t, tz)

    @classmethod
    def utcnow(cls):
        return cls.utcfromtimestamp(sim_time())

    @classmethod
    def today(cls):
        return cls.now()


def sim_current_thread():
    t = K.cur() if K is not None else None
    if t is not None:
        return t
    return _orig_current_thread()


class _LoggingTime:
    """what the logging package sees as `time`: reads the virtual clock without advancing it"""

    def __getattr__(self, name):
        return getattr(_time, name)

    @staticmethod
    def time():
        if K is None:
            return Kernel.EPOCH0
        return K.peek()

    @staticmethod
    def time_ns():
        return int(_LoggingTime.time() * 1e9)


def sim_uuid4():
    import uuid as _uuid
    if K is None:
        n = 0
    else:
        K.uuid_counter += 1
        n = K.uuid_counter
    seed = K.seed if K is not None else 0
    h = hashlib.md5(('%s-%s' % (seed, n)).encode()).digest()
    return _uuid.UUID(bytes=h, version=4)


INSTALLED = False


def install():
    """Replace the seams.  Must run after the C-extension stack (pandas, numpy, ...) is imported and
    before reactivex / experiment are."""
    global INSTALLED
    if INSTALLED:
        return
    INSTALLED = True
    import logging
    logging.time = _LoggingTime()
    logging.Handler.createLock = lambda self: setattr(self, 'lock', _RealRLock())
    _threading.Thread = SimThread
    _threading.Timer = SimTimer
    _threading.Lock = SimLock
    _threading.RLock = SimRLock
    _threading.Condition = SimCondition
    _threading.Event = SimEvent
    _threading.Semaphore = SimSemaphore
    _threading.BoundedSemaphore = SimSemaphore
    _threading.current_thread = sim_current_thread
    _threading.currentThread = sim_current_thread
    _time.sleep = sim_sleep
    _time.time = sim_time
    _time.monotonic = sim_monotonic
    _datetime.datetime = SimDateTime
    import concurrent.futures
    import concurrent.futures.thread
    concurrent.futures.ThreadPoolExecutor = SimThreadPoolExecutor
    concurrent.futures.thread.ThreadPoolExecutor = SimThreadPoolExecutor
    import uuid
    uuid.uuid4 = sim_uuid4
