"""Worker process: boots once, then runs each job in a forked child (one simulated run = one os.fork()).

Protocol (JSON lines): stdin  {"id": n, "case": {...}, "schedule": [...]|null, "opts": {...}}
                       stdout {"id": n, "result": {...}} | {"id": n, "harness_error": "..."}
A forked child gives every run a pristine copy of the process-globals the repository keeps (thread pools,
schedulers, caches) and makes teardown of parked OS threads a non-problem (os._exit).
"""
import gc
import importlib
import json
import os
import select
import signal
import sys
import time as _t

_perf = _t.perf_counter  # captured before any seam is installed


def _run_child(mod, job, wfd):
    import faulthandler
    try:
        faulthandler.enable(file=sys.stderr)
        res = mod.run_case(job['case'], job.get('schedule'), job.get('opts') or {})
        data = json.dumps({'result': res}, default=repr)
    except BaseException as e:  # harness failure, reported as such
        import traceback
        data = json.dumps({'harness_error': '%r\n%s' % (e, traceback.format_exc())})
    try:
        b = data.encode()
        off = 0
        while off < len(b):
            off += os.write(wfd, b[off:off + 65536])
    finally:
        os._exit(0)


def main():
    modname = sys.argv[1]
    sys.path.insert(0, os.path.dirname(os.path.dirname(os.path.abspath(__file__))))
    mod = importlib.import_module(modname)
    from sim import boot
    bootopts = getattr(mod, 'BOOT', {'kernel': True})
    boot.boot(kernel=bootopts.get('kernel', True), log_file=os.environ.get('VERIF_LOG'))
    if hasattr(mod, 'worker_init'):
        mod.worker_init()
    gc.collect()
    gc.freeze()
    out = sys.stdout
    out.write(json.dumps({'ready': True}) + '\n')
    out.flush()
    for line in sys.stdin:
        line = line.strip()
        if not line:
            continue
        job = json.loads(line)
        if job.get('quit'):
            break
        timeout = float((job.get('opts') or {}).get('wall_timeout', 300))
        rfd, wfd = os.pipe()
        t0 = _perf()
        pid = os.fork()
        if pid == 0:
            os.close(rfd)
            _run_child(mod, job, wfd)
        os.close(wfd)
        chunks = []
        timed_out = False
        while True:
            left = timeout - (_perf() - t0)
            if left <= 0:
                timed_out = True
                break
            r, _, _ = select.select([rfd], [], [], min(left, 5.0))
            if r:
                b = os.read(rfd, 1 << 20)
                if not b:
                    break
                chunks.append(b)
        os.close(rfd)
        if timed_out:
            try:
                os.kill(pid, signal.SIGKILL)
            except OSError:
                pass
        os.waitpid(pid, 0)
        wall = _perf() - t0
        if timed_out:
            msg = {'id': job['id'], 'harness_error': 'wall timeout after %.0fs' % timeout, 'wall': wall}
        else:
            try:
                msg = json.loads(b''.join(chunks).decode())
            except Exception as e:
                msg = {'harness_error': 'child died without a result (%r, %d bytes)' % (e, sum(map(len, chunks)))}
            msg['id'] = job['id']
            msg['wall'] = wall
        out.write(json.dumps(msg) + '\n')
        out.flush()


if __name__ == '__main__':
    main()
