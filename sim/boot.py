"""Import order and seam installation for a worker process.

The C-extension stack must see the real datetime (pandas segfaults otherwise); the seams must be in
before reactivex and experiment.* are imported because they bind `from threading import ...`,
`from datetime import datetime` and `from concurrent.futures import ThreadPoolExecutor` at import.
"""
import os
import sys

REPO = os.environ.get('VERIF_REPO', '/repo')
BOOTED = None


def repo_on_path():
    p = os.path.join(REPO, 'python')
    if sys.path[0] != p:
        sys.path.insert(0, p)
    import experiment
    exp_file = os.path.realpath(experiment.__file__)
    if not exp_file.startswith(os.path.realpath(p) + os.sep):
        raise RuntimeError("experiment imported from %s, expected under %s" % (exp_file, p))


def boot(kernel=True, log_file=None):
    """returns the kernel module (or None)"""
    global BOOTED
    if BOOTED is not None:
        return BOOTED[0]
    os.environ.setdefault('TZ', 'UTC')
    import pandas, numpy, networkx, yaml, pydantic, zoneinfo  # noqa: F401  (before datetime is replaced)
    import logging
    km = None
    if kernel:
        from sim import kernel as km
        km.install()
    if log_file:
        logging.basicConfig(filename=log_file, level=int(os.environ.get('VERIF_LOG_LEVEL', '14')),
                            format='%(created).6f %(name)s %(threadName)s: %(message)s')
    else:
        logging.disable(logging.CRITICAL)
    repo_on_path()
    import experiment.model.frontends.flowir  # noqa: F401
    import experiment.model.graph  # noqa: F401
    import experiment.model.data  # noqa: F401
    import experiment.model.storage  # noqa: F401
    import experiment.model.conf  # noqa: F401
    if kernel:
        import reactivex  # noqa: F401
        import experiment.runtime.engine  # noqa: F401
        import experiment.runtime.control  # noqa: F401
        import experiment.runtime.workflow  # noqa: F401
        import experiment.runtime.backends  # noqa: F401
        import experiment.runtime.output  # noqa: F401
    BOOTED = (km,)
    return km
