"""E1 harness: run a generated workflow with the real Controller/ComponentState/Engine under the kernel.

Everything here runs inside a forked child of a worker that has booted with the kernel installed.
"""
import os
import re
import shutil
import random
import hashlib
import builtins

from sim import kernel as simk
from sim import boot

import experiment.model.codes as codes
import experiment.model.data
import experiment.model.storage
import experiment.model.graph
import experiment.model.errors
import experiment.runtime.task
import experiment.runtime.engine
import experiment.runtime.control
import experiment.runtime.workflow
import experiment.runtime.backends
import experiment.runtime.errors
import experiment.runtime.monitor
import experiment.utilities.data
import networkx

FINAL_STATES = (codes.FINISHED_STATE, codes.FAILED_STATE, codes.SHUTDOWN_STATE)

RC_OF = {'Success': 0, 'KnownIssue': 1, 'UnknownIssue': 2, 'SystemIssue': 130, 'ResourceExhausted': 24,
         'Killed': -9, 'Cancelled': -15, 'SubmissionFailed': 1}


class Recorder:
    def __init__(self):
        self.events = []
        self.seq = 0
        self.counters = {}
        self.abstract = hashlib.sha256()

    def ev(self, kind, ref=None, data=None):
        self.seq += 1
        k = simk.K
        self.events.append([self.seq, round(k.clock, 6) if k is not None else 0.0, kind, ref, data])
        return self.seq

    def count(self, name, n=1):
        self.counters[name] = self.counters.get(name, 0) + n

    def note_abstract(self, *items):
        self.abstract.update(('|'.join(str(i) for i in items) + ';').encode())


REC = None  # Recorder of the current run
CTX = None  # RunContext of the current run


# ------------------------------------------------------------------------------------------------
# virtual mtimes: files written during a run are stamped with the virtual clock
class VirtualMtimes:
    def __init__(self, root):
        self.root = os.path.realpath(root)
        self.table = {}

    def note(self, path, t=None):
        try:
            p = os.path.abspath(path)
        except Exception:
            return
        if p.startswith(self.root):
            self.table[p] = simk.K.peek() if t is None else t


_orig_open = builtins.open
_orig_getmtime = os.path.getmtime
_orig_getctime = os.path.getctime
_orig_utime = os.utime
_orig_rename = os.rename
_orig_replace = os.replace
_orig_listdir = os.listdir
VM = None


def _sim_open(file, mode='r', *a, **kw):
    f = _orig_open(file, mode, *a, **kw)
    if VM is not None and isinstance(file, str) and any(c in mode for c in 'wax+'):
        VM.note(file)
    return f


def _sim_getmtime(path):
    if VM is not None:
        t = VM.table.get(os.path.abspath(path))
        if t is not None:
            return t
    return _orig_getmtime(path)


def _sim_getctime(path):
    if VM is not None:
        t = VM.table.get(os.path.abspath(path))
        if t is not None:
            return t
    return _orig_getctime(path)


def _sim_rename(src, dst, *a, **kw):
    r = _orig_rename(src, dst, *a, **kw)
    if VM is not None and isinstance(src, str) and isinstance(dst, str):
        t = VM.table.pop(os.path.abspath(src), None)
        VM.note(dst, t)
    return r


# disk-error fault: listing a working directory under <instance>/stages fails (EIO) during seeded windows of
# virtual time [[start, end], ...] (what a flaky shared file system does to the monitors of repeating engines)
LISTDIR_FAULT = {'windows': [], 't0': 0.0}


def _sim_listdir(path='.'):
    w = LISTDIR_FAULT['windows']
    if w and isinstance(path, str) and os.sep + 'stages' + os.sep in path and simk.K is not None and simk.K.active:
        t = simk.K.clock - LISTDIR_FAULT['t0']
        if any(a <= t < b for (a, b) in w):
            if REC is not None:
                REC.count('fault.listdir_eio')
            raise OSError(5, 'simulated I/O error while listing', path)
    return sorted(_orig_listdir(path))


def install_fs_seams(root):
    global VM
    VM = VirtualMtimes(root)
    builtins.open = _sim_open
    os.path.getmtime = _sim_getmtime
    os.path.getctime = _sim_getctime
    os.rename = _sim_rename
    os.listdir = _sim_listdir


# ------------------------------------------------------------------------------------------------
class LaunchFailure(Exception):
    pass


def base_name(name):
    return re.sub(r'\d+$', '', name)


class Plan:
    """Fault plan: what execution n of component c does.  plan[ref or base-name] = {'execs': [...], 'default': {...}}"""

    def __init__(self, plan, hook=None):
        self.plan = plan or {}
        self.hook = hook or {}
        self.nexec = {}
        self.nhook = {}

    def entry(self, ref):
        # ref like stage0.W1 ; try exact, exact-without-stage, base name
        stage, name = ref.split('.', 1)
        keys = [ref, name, '%s.%s' % (stage, base_name(name)), base_name(name)]
        if '#' in name:  # loop instance <iteration>#<name>[<replica>]
            bare = name.split('#', 1)[1]
            keys += [bare, base_name(bare)]
        for key in keys:
            if key in self.plan:
                return self.plan[key]
        return {}

    def next_exec(self, ref):
        n = self.nexec.get(ref, 0) + 1
        self.nexec[ref] = n
        e = self.entry(ref)
        execs = e.get('execs') or []
        if n - 1 < len(execs):
            spec = dict(e.get('default') or {})
            spec.update(execs[n - 1])
        else:
            spec = dict(e.get('default') or {})
        spec.setdefault('dur', 2.0)
        spec.setdefault('exit', 'Success')
        spec.setdefault('outs', [])
        return n, spec

    def hook_answer(self, ref):
        n = self.nhook.get(ref, 0) + 1
        self.nhook[ref] = n
        stage, name = ref.split('.', 1)
        for key in (ref, name, base_name(name)):
            if key in self.hook:
                lst = self.hook[key]
                if not lst:
                    return 'HookNotAvailable'
                return lst[min(n - 1, len(lst) - 1)]
        return 'HookNotAvailable'


class SimTask(experiment.runtime.task.Task):
    def __init__(self, job, spec, n, outputFile='out.stdout'):
        self.job = job
        self.ref = job.reference
        self.spec = spec
        self.n = n
        self.wd = job.workingDirectory.path
        self.outputFile = os.path.join(self.wd, outputFile or 'out.stdout')
        self._done = simk.SimEvent()
        self._cond = simk.SimCondition()
        self.returncode = None
        self._reason = None
        self._kill_requested = False
        REC.ev('launch', self.ref, {'n': n, 'exit': spec['exit'], 'dur': spec['dur']})
        REC.count('task.launches')
        self._t = simk.SimThread(target=self._run, name='task-%s-%d' % (self.ref, n))
        self._t._nostall = True  # the task's own timing is part of the fault plan, not of the stall fault
        self._t.start()

    def _write(self, fname, content, append=True):
        p = os.path.join(self.wd, fname)
        with open(p, 'a' if append else 'w') as f:
            f.write(content)
        REC.ev('output', self.ref, {'n': self.n, 'file': fname})

    def _sleep_until(self, t_end):
        """returns True if killed meanwhile"""
        while not self._kill_requested:
            left = t_end - simk.K.clock
            if left <= 0:
                return False
            with self._cond:
                if self._kill_requested:
                    break
                self._cond.wait(left)
        return True

    def _run(self):
        spec = self.spec
        t0 = simk.K.clock
        killed = False
        for out in sorted(spec.get('outs') or []):
            (off, fname, content) = out[:3]
            if self._sleep_until(t0 + off):
                killed = True
                break
            # optional 4th element 'w': the task rewrites the file (e.g. a loop condition) instead of appending to it
            self._write(fname, content, append=not (len(out) > 3 and out[3] == 'w'))
        if not killed:
            killed = self._sleep_until(t0 + spec['dur'])
        if killed:
            kd = spec.get('kill_delay', 0.0)
            if kd:
                simk.sim_sleep(kd)
            reason = 'Killed'
        else:
            reason = spec['exit']
            try:
                with open(self.outputFile, 'a') as f:
                    f.write('run %d %s\n' % (self.n, reason))
            except IOError:
                pass
        self._reason = reason
        self.returncode = RC_OF.get(reason, 1)
        REC.ev('exit', self.ref, {'n': self.n, 'reason': reason})
        REC.count('fault.exit.%s' % reason)
        self._done.set()

    def poll(self):
        return self.returncode

    def wait(self):
        self._done.wait()

    def isAlive(self):
        return self._reason is None

    def kill(self):
        if self._reason is None and not self._kill_requested:
            REC.ev('task-kill', self.ref, {'n': self.n})
        self._kill_requested = True
        with self._cond:
            self._cond.notify_all()

    terminate = kill

    @property
    def exitReason(self):
        return self._reason

    @property
    def status(self):
        if self._reason is None:
            return codes.RUNNING_STATE
        return codes.FINISHED_STATE if self._reason == 'Success' else codes.FAILED_STATE

    @property
    def performanceInfo(self):
        return experiment.utilities.data.Matrix()

    @classmethod
    def default_performance_info(cls):
        return experiment.utilities.data.Matrix()


def sim_task_generator(job, outputFile=None, errorFile=None):
    n, spec = CTX.plan.next_exec(job.reference)
    lf = spec.get('launch_fail')
    if lf:
        REC.ev('launch-fail', job.reference, {'n': n, 'how': lf})
        REC.count('fault.launch_fail.%s' % lf)
        if spec.get('launch_fail_delay'):
            # a submission that hangs before it fails (scheduler down, timeout)
            REC.count('fault.launch_fail.slow')
            simk.sim_sleep(float(spec['launch_fail_delay']))
        if lf == 'oserror':
            raise OSError('simulated launch failure')
        if lf == 'joblaunch':
            raise experiment.runtime.errors.JobLaunchError('simulated launch failure', OSError('simulated'))
        raise ValueError('simulated launch failure')
    if CTX.on_launch is not None:
        CTX.on_launch(job, n, spec)
    return SimTask(job, spec, n, outputFile)


def hook_entry(workingDirectory, restarts, componentName, log, exitReason, exitCode):
    """called from the generated hooks/restart.py"""
    stage = os.path.basename(os.path.dirname(os.path.normpath(workingDirectory)))  # .../stages/stage0/NAME
    m = re.match(r'stage(\d+)$', stage)
    ref = 'stage%s.%s' % (m.group(1) if m else '0', componentName)
    ans = CTX.plan.hook_answer(ref)
    REC.ev('hook', ref, {'answer': ans, 'restarts': restarts, 'exitReason': exitReason})
    REC.count('fault.hook.%s' % ans)
    if ans.startswith('slow'):
        # a restart hook that takes its time (it prepares input files): the component may be stopped meanwhile
        simk.sim_sleep(9.0)
        ans = ans[4:]
    rc = codes.restartContexts
    if ans == 'Possible':
        return rc['RestartContextRestartPossible']
    if ans == 'NotRequired':
        return rc['RestartContextRestartNotRequired']
    if ans == 'NotPossible':
        return rc['RestartContextRestartNotPossible']
    if ans == 'HookFailed':
        return rc['RestartContextHookFailed']
    if ans == 'HookNotAvailable':
        return rc['RestartContextHookNotAvailable']
    if ans == 'raise':
        raise RuntimeError('simulated hook failure')
    if ans == 'ioerror':
        raise IOError('simulated hook IOError')
    if ans == 'true':
        return True
    if ans == 'false':
        return False
    if ans == 'junk':
        return 42
    if ans == 'junkstr':
        return 'NoSuchContext'
    return rc['RestartContextHookNotAvailable']


HOOK_SOURCE = '''
from sim.runtime import hook_entry


def Restart(workingDirectory, restarts, componentName, log, exitReason, exitCode):
    return hook_entry(workingDirectory, restarts, componentName, log, exitReason, exitCode)
'''


# ------------------------------------------------------------------------------------------------
class FakeStatus:
    def monitorComponent(self, *a, **k):
        pass


class RunContext:
    def __init__(self, plan):
        self.plan = plan
        self.controller = None
        self.exp = None
        self.on_launch = None
        self.submitted = set()


def build_experiment(flowir_text, root, extra_files=None, is_flowir=True, variable_files=None, platform=None,
                     validate=True):
    """what tests/utils.py::experiment_from_flowir does (restated so the harness does not depend on the tests)"""
    package_path = os.path.join(root, '%s.package' % os.path.basename(root))
    dir_conf = os.path.join(package_path, 'conf')
    os.makedirs(dir_conf)
    with open(os.path.join(dir_conf, 'flowir_package.yaml' if is_flowir else 'dsl.yaml'), 'w') as f:
        f.write(flowir_text)
    for path, content in (extra_files or {}).items():
        full = os.path.join(package_path, path)
        os.makedirs(os.path.dirname(full), exist_ok=True)
        with open(full, 'w') as f:
            f.write(content)
    os.chdir(root)
    pkg = experiment.model.storage.ExperimentPackage.packageFromLocation(package_path, platform=platform)
    exp = experiment.model.data.Experiment.experimentFromPackage(
        pkg, location=root, variable_files=variable_files, platform=platform)
    if validate:
        exp.validateExperiment(checkExecutables=True)
    return exp


def new_controller(exp, initial_stage=0, restart_sources=None):
    """what elaunch.generate_components / tests.utils.new_controller do"""
    wg = exp.experimentGraph
    comps = []
    for job_name in networkx.topological_sort(exp.graph):
        if os.environ.get('VERIF_KSWITCHLOG'):
            with open(os.environ['VERIF_KSWITCHLOG'] + '.%d' % os.getpid(), 'a') as fh:
                fh.write('COMPONENT %s\n' % job_name)
        data = exp.graph.nodes[job_name]
        stage = exp._stages[data['stageIndex']]
        spec = data['componentSpecification']
        job = stage.jobWithName(spec.identification.componentName)
        comps.append(experiment.runtime.workflow.ComponentState(job, wg, create_engine=bool(stage.index >= initial_stage)))
    # restart_sources = {stage: True}: what `elaunch --restart <stage>` passes by default (restart hooks are used for the
    # components of the stage the run is restarted from)
    controller = experiment.runtime.control.Controller(exp, do_restart_sources=restart_sources)
    return controller, comps


_probes_installed = False


def install_probes():
    """wrap (inside the harness only) the public methods the properties name; pure observation"""
    global _probes_installed
    if _probes_installed:
        return
    _probes_installed = True
    CS = experiment.runtime.workflow.ComponentState
    Eng = experiment.runtime.engine.Engine
    REng = experiment.runtime.engine.RepeatingEngine
    Ctl = experiment.runtime.control.Controller

    o_run = CS.run

    def cs_run(self):
        ref = self.specification.reference
        c = CTX.controller
        preds = {}
        if c is not None:
            for p in c.graph.predecessors(ref):
                try:
                    pc = c.get_compstate(p)
                    preds[p] = [pc.state, p in CTX.submitted]
                except Exception as e:  # pragma: no cover
                    preds[p] = ['?%r' % e, False]
        REC.ev('submit', ref, {'preds': preds, 'state': self.state})
        CTX.submitted.add(ref)
        return o_run(self)

    CS.run = cs_run

    o_stop = Ctl._stopComponents

    def ctl_stop_components(self, components, stop_optimizer):
        # seam, not observation: the stage-completion hook hands over a *set* of ComponentState objects, whose iteration
        # order follows memory addresses (which differ with the worker's history). The order in which the components of
        # a stage are stopped is the simulator's to decide: sorted by reference, then permuted by recorded decisions.
        if isinstance(components, (set, frozenset)):
            comps = sorted(components, key=lambda c: c.specification.reference)
            k = simk.K
            if k is not None and k.active and len(comps) > 1:
                order = []
                while comps:
                    order.append(comps.pop(k.decide(len(comps))))
                comps = order
            components = comps
        return o_stop(self, components, stop_optimizer)

    Ctl._stopComponents = ctl_stop_components

    o_stagein = CS.stageIn

    def cs_stagein(self, stageData=True):
        REC.ev('stagein', self.specification.reference, None)
        return o_stagein(self, stageData)

    CS.stageIn = cs_stagein

    o_finish = CS.finish

    def cs_finish(self, finalState):
        ref = self.specification.reference
        cur = simk.K.cur() if simk.K is not None else None
        via_pm = getattr(cur, '_in_pm', None) == ref  # called by this component's own postMortemCheck (its verdict)
        REC.ev('finish', ref, {'to': finalState, 'state': self.state, 'via_pm': via_pm,
                               'thr': getattr(cur, 'name', None)})
        return o_finish(self, finalState)

    CS.finish = cs_finish

    o_restart = CS.restart

    def cs_restart(self, reason=None, code=None):
        ref = self.specification.reference
        REC.ev('restart-begin', ref, {'reason': reason})
        try:
            r = o_restart(self, reason=reason, code=code)
        except BaseException as e:
            REC.ev('restart', ref, {'reason': reason, 'raised': repr(e)})
            raise
        REC.ev('restart', ref, {'reason': reason, 'code': r, 'restarts': self.engine.restarts,
                                'resub': self.engine.resubmissionAttempts()})
        return r

    CS.restart = cs_restart

    # controllerState as a recording data descriptor
    class _CtlState:
        def __get__(self, obj, tp=None):
            if obj is None:
                return self
            return obj.__dict__.get('_v_controllerState')

        def __set__(self, obj, value):
            old = obj.__dict__.get('_v_controllerState')
            obj.__dict__['_v_controllerState'] = value
            try:
                ref = obj._specification.reference
            except Exception:
                ref = None
            if ref is not None and REC is not None and (old is not None or value is not None):
                REC.ev('ctlstate', ref, {'old': old, 'new': value})

    CS.controllerState = _CtlState()

    o_erun = Eng.run

    def e_run(self, *a, **kw):
        REC.ev('engine-run', self.job.reference, {'restarts': self.restarts})
        return o_erun(self, *a, **kw)

    Eng.run = e_run

    o_rrun = REng.run

    def r_run(self):
        REC.ev('engine-run', self.job.reference, {'repeating': True})
        return o_rrun(self)

    REng.run = r_run

    for cls, label in ((Eng, 'engine-kill'), (REng, 'engine-kill')):
        o_kill = cls.__dict__['kill']

        def e_kill(self, _o=o_kill, _l=label):
            cur = simk.K.cur() if simk.K is not None else None
            REC.ev(_l, self.job.reference, {'alive': self.isAlive(), 'thr': getattr(cur, 'name', None)})
            return _o(self)

        cls.kill = e_kill

    o_notify = REng.notify_all_producers_finished

    def r_notify(self):
        REC.ev('notified', self.job.reference, None)
        return o_notify(self)

    REng.notify_all_producers_finished = r_notify

    o_fc = Ctl.finishedCheck

    def c_fc(self, state, component):
        ref = component.specification.reference
        REC.ev('finishedCheck', ref, {'state': component.state})
        REC.note_abstract('fc', ref, component.state)
        try:
            return o_fc(self, state, component)
        finally:
            REC.ev('finishedCheck-end', ref, None)

    Ctl.finishedCheck = c_fc

    o_pm = Ctl.postMortemCheck

    def c_pm(self, state, component):
        ref = component.specification.reference
        REC.ev('postMortemCheck', ref, {'exitReason': component.engine.exitReason(), 'finishCalled': component.finishCalled})
        REC.note_abstract('pm', ref, component.engine.exitReason())
        cur = simk.K.cur() if simk.K is not None else None
        prev = getattr(cur, '_in_pm', None)
        if cur is not None:
            cur._in_pm = ref
        try:
            return o_pm(self, state, component)
        finally:
            if cur is not None:
                cur._in_pm = prev
            REC.ev('postMortemCheck-end', ref, None)

    Ctl.postMortemCheck = c_pm

    o_cm = experiment.runtime.monitor.CreateMonitor

    def create_monitor(interval, action, cancelEvent, lastAction=True, name=None, default_polling_time=5.0):
        ref = name.split(' ')[0] if name and name.endswith('(EngineCore)') else None

        def rec_action(last, _a=action, _ref=ref):
            if _ref is not None:
                REC.ev('kstart', _ref, {'last': bool(last)})
            try:
                return _a(last)
            finally:
                if _ref is not None:
                    REC.ev('kend', _ref, None)

        rec_action.__name__ = getattr(action, '__name__', 'action')
        return o_cm(interval, rec_action, cancelEvent, lastAction=lastAction, name=name,
                    default_polling_time=default_polling_time)

    experiment.runtime.monitor.CreateMonitor = create_monitor

    o_sched = Ctl._schedule

    def c_sched(self, migrated_components):
        REC.count('sched.passes')
        REC.ev('sched-start', None, None)
        return o_sched(self, migrated_components)

    Ctl._schedule = c_sched


def register_backends():
    m = experiment.runtime.backends
    m.backendGeneratorMap['local'] = sim_task_generator
    m.backendTaskMap['local'] = SimTask
    m.backendGeneratorMap['simulator'] = sim_task_generator
    m.backendTaskMap['simulator'] = SimTask


def make_root(tag='run', key=''):
    """scratch directory whose name depends only on the case (not on the pid), so that path strings - and with
    them any hash-ordered container of paths - are identical when a run is repeated"""
    h = hashlib.sha256(key.encode()).hexdigest()[:12]
    for suffix in ('', 'b', 'c', 'd', 'e', 'f', 'g', 'h'):
        root = '/dev/shm/verif-%s-%s%s' % (tag, h, suffix)
        try:
            os.makedirs(root)
            return root
        except FileExistsError:
            continue
    raise RuntimeError('cannot create scratch root for %s' % h)


def cleanup_root(root):
    import glob
    name = os.path.basename(root)
    shutil.rmtree(root, ignore_errors=True)
    for d in glob.glob('/tmp/chpc-*-shadow/%s-*' % name):
        shutil.rmtree(d, ignore_errors=True)


def start_instability(times):
    """File-system instability as the monitors report it: at each seeded virtual time a FilesystemInconsistencyError is
    handed to the MonitorExceptionTracker (what an engine's monitor does when a producer directory cannot be listed).
    The controller consults the tracker before it gives a failed component its verdict (25 s later) and suspends the
    component for up to 120 s when the system looks unstable."""
    import threading
    import experiment.runtime.monitor as M
    import experiment.runtime.errors as RE

    def run():
        t0 = simk.K.clock
        for t in sorted(times):
            left = t0 + t - simk.K.clock
            if left > 0:
                simk.sim_sleep(left)
            try:
                err = RE.FilesystemInconsistencyError('simulated: producer directory could not be listed', None)
            except TypeError:
                err = RE.FilesystemInconsistencyError('simulated: producer directory could not be listed')
            M.MonitorExceptionTracker.defaultTracker().addException(err)
            REC.ev('instability', None, None)
            REC.count('fault.filesystem_instability_reported')

    t = threading.Thread(target=run, name='Instability')
    t.daemon = True
    t.start()
    return t


def start_operator(pauses, slow_wake_p=0.0):
    """The operator of scripts/elaunch.py (pause / live-patch signals), as a simulated thread: at each seeded virtual time
    it puts the current controller to sleep, waits until the scheduler reports that it sleeps (bounded), stays paused for
    the given time and wakes it up. pauses = [[start, duration], ...]"""
    import threading

    def run():
        t0 = simk.K.clock
        for (start, dur) in sorted(pauses):
            left = t0 + start - simk.K.clock
            if left > 0:
                simk.sim_sleep(left)
            c = CTX.controller
            if c is None:
                continue
            REC.ev('operator-pause', None, {'for': dur})
            REC.count('fault.operator_pause')
            c.sleep()
            for _ in range(30):
                if c.is_sleeping:
                    break
                simk.sim_sleep(1.0)
            simk.sim_sleep(dur)
            c = CTX.controller or c
            me = simk.K.cur()
            if slow_wake_p:
                me._stall_p = slow_wake_p  # a slow operator thread: stalls between the steps of wake_up()
            try:
                c.wake_up()
            finally:
                me._stall_p = None
            REC.ev('operator-wake', None, None)

    t = threading.Thread(target=run, name='Operator')
    t.daemon = True
    t.start()
    return t


def states_of(controller):
    out = {}
    for n in controller.graph.nodes:
        try:
            out[n] = controller.get_compstate(n).state
        except Exception as e:
            out[n] = '?%r' % (e,)
    return out


def run_stages(exp, controller, rec, outcomes=None, first=0, last=None):
    """The stage loop of scripts/elaunch.py::Run, restated. Returns (and fills in place) the per-stage outcomes.
    first/last: run only the stages first..last (a restart from stage <first>; a run that dies after stage <last>)"""
    if outcomes is None:
        outcomes = []
    for stage in exp._stages:
        if stage.index < first or (last is not None and stage.index > last):
            continue
        out = {'stage': stage.index, 'continueOnError': bool(stage.continueOnError)}
        rec.ev('stage-start', 'stage%d' % stage.index, None)
        try:
            controller.initialise(stage, FakeStatus())
            controller.run()
            out['result'] = 'ok'
        except experiment.runtime.errors.UnexpectedJobFailureError:
            out['result'] = 'jobfail'
        except experiment.runtime.errors.FinalStageNoFinishedLeafComponents:
            out['result'] = 'noleaf'
        except experiment.model.errors.SystemError as e:
            out['result'] = 'systemerror'
            out['error'] = repr(e)
        except simk.SimStop:
            raise
        except Exception as e:
            import traceback
            out['result'] = 'exception'
            out['error'] = traceback.format_exc()[-2000:]
        try:
            out['stage_state'] = controller.stageState(stage)
        except Exception as e:
            out['stage_state'] = '?%r' % (e,)
        out['states'] = {n: s for n, s in states_of(controller).items()
                         if controller.graph.nodes[n]['stageIndex'] == stage.index}
        out['t_end'] = simk.K.clock
        rec.ev('stage-end', 'stage%d' % stage.index, {'result': out['result']})
        outcomes.append(out)
        if out['result'] in ('jobfail', 'noleaf') and not stage.continueOnError:
            break
        if out['result'] in ('systemerror', 'exception'):
            break
    return outcomes
