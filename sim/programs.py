"""Seeded generators for workflow programs and fault plans (swarm style) and their FlowIR rendering.

A program is a plain JSON-able dict:
  {'comps': [{'name','stage','refs':[producer names as written in FlowIR, e.g. 'A' or 'stage0.A'],
              'replicate': n|None, 'aggregate': bool, 'repeat': {'interval','retries'}|None,
              'shutdownOn': [...], 'restartHookOn': [...]|None, 'maxRestarts': int|None,
              'restartHookFile': None|''|'name.py', 'variables': {...}, 'backend': 'local'|'simulator'}],
   'stage_opts': {stage_index: {'continue-on-error': 1}},
   'plan': {name: {'default': exec, 'execs': [exec...]}}, 'hook': {name: [answers]}, 'hook_file': bool}
"""
import random

EXITS_FAIL = ['KnownIssue', 'UnknownIssue', 'SystemIssue', 'ResourceExhausted']


def comp_yaml(c):
    lines = ['- name: %s' % c['name']]
    if c.get('stage'):
        lines.append('  stage: %d' % c['stage'])
    lines += ['  command:', '    executable: echo']
    refs = c.get('refs') or []
    if refs:
        lines.append('    arguments: "%s"' % ' '.join('%s:ref' % r for r in refs))
        lines.append('  references: [%s]' % ', '.join('"%s:ref"' % r for r in refs))
    else:
        lines.append('    arguments: hello')
    wa = []
    if c.get('replicate'):
        wa.append('    replicate: %d' % c['replicate'])
    if c.get('aggregate'):
        wa.append('    aggregate: true')
    if c.get('repeat'):
        rp = c['repeat']
        wa.append('    isRepeat: true')
        wa.append('    repeatInterval: %s' % rp['interval'])
        if rp.get('retries') is not None:
            wa.append('    repeatRetries: %d' % rp['retries'])
    if c.get('shutdownOn'):
        wa.append('    shutdownOn: [%s]' % ', '.join(c['shutdownOn']))
    if c.get('restartHookOn') is not None:
        wa.append('    restartHookOn: [%s]' % ', '.join(c['restartHookOn']))
    if c.get('maxRestarts') is not None:
        wa.append('    maxRestarts: %d' % c['maxRestarts'])
    if c.get('restartHookFile') is not None:
        wa.append('    restartHookFile: "%s"' % c['restartHookFile'])
    if wa:
        lines.append('  workflowAttributes:')
        lines.extend(wa)
    if c.get('backend') and c['backend'] != 'local':
        lines.append('  resourceManager:')
        lines.append('    config:')
        lines.append('      backend: %s' % c['backend'])
    var = dict(c.get('variables') or {})
    if var:
        lines.append('  variables:')
        for k, v in sorted(var.items()):
            lines.append('    %s: "%s"' % (k, v))
    return '\n'.join(lines) + '\n'


def render_flowir(prog):
    out = []
    so = prog.get('stage_opts') or {}
    if so:
        out.append('variables:\n  default:\n    stages:\n')
        for s in sorted(so, key=int):
            out.append('      %d:\n' % int(s))
            for k, v in sorted(so[s].items()):
                out.append('        %s: %s\n' % (k, v))
    out.append('components:\n')
    out.extend(comp_yaml(c) for c in prog['comps'])
    return ''.join(out)


def extra_files(prog):
    files = {}
    names = set()
    for c in prog['comps']:
        f = c.get('restartHookFile')
        if f:
            names.add(f)
    if prog.get('hook_file'):
        names.add('restart.py')
    from sim.runtime import HOOK_SOURCE
    for n in names:
        files['hooks/%s' % n] = HOOK_SOURCE
    if names:
        files['hooks/__init__.py'] = ''
    return files


def gen_exec(rr, fail_p=0.25, durs=(0.3, 2.0, 8.0, 20.0), exits=EXITS_FAIL, launch_fail_p=0.0):
    e = {'dur': rr.choice(durs)}
    if launch_fail_p and rr.random() < launch_fail_p:
        e['launch_fail'] = rr.choice(['oserror', 'joblaunch', 'joblaunch', 'valueerror'])
        if rr.random() < 0.35:
            e['launch_fail_delay'] = rr.choice([2.0, 6.0, 12.0])
    e['exit'] = rr.choice(exits) if rr.random() < fail_p else 'Success'
    return e


def gen_dag(rr, max_stages=3, max_per_stage=4):
    """multi-stage DAG with replicas, aggregators, same-stage consumers and observers"""
    nstages = rr.choice([1, 1, 2, 2, 3][:max(1, max_stages + 2)])
    nstages = min(nstages, max_stages)
    comps = []
    names = 'ABCDEFGHJKLM'
    k = 0
    by_stage = {}
    replicated = {}  # name -> bool: is in a replicated region
    for s in range(nstages):
        n = rr.randint(1, max_per_stage)
        for _ in range(n):
            if k >= len(names):
                break
            name = names[k]
            k += 1
            c = {'name': name, 'stage': s, 'refs': []}
            # producers: from earlier stages and from this stage (already created => acyclic)
            cands = [(p['name'], p['stage']) for p in comps]
            rr.shuffle(cands)
            nref = rr.choice([0, 1, 1, 2, 3]) if cands else 0
            picked = cands[:nref]
            for (pn, ps) in picked:
                c['refs'].append(pn if ps == s else 'stage%d.%s' % (ps, pn))
            same_stage_refs = [pn for (pn, ps) in picked if ps == s]
            in_repl = any(replicated.get(pn) for (pn, ps) in picked)
            if in_repl and rr.random() < 0.5:
                c['aggregate'] = True
                in_repl = False
            if not c['refs'] and rr.random() < 0.3:
                c['replicate'] = rr.choice([2, 2, 3])
                in_repl = True
            elif not in_repl and not c.get('aggregate') and c['refs'] and rr.random() < 0.1:
                c['replicate'] = 2
                in_repl = True
            replicated[name] = in_repl
            if same_stage_refs and rr.random() < 0.45:
                c['repeat'] = {'interval': rr.choice([1, 3, 7, 15]), 'retries': rr.choice([None, 0, 1, 3])}
                if rr.random() < 0.2:
                    c.setdefault('variables', {})['check-producer-output'] = 'false'
            elif not c['refs'] and rr.random() < 0.05:
                c['repeat'] = {'interval': rr.choice([1, 3]), 'retries': rr.choice([None, 0])}
            if rr.random() < 0.3:
                c['shutdownOn'] = rr.sample(['KnownIssue', 'UnknownIssue', 'SystemIssue', 'ResourceExhausted', 'Killed'],
                                            rr.choice([1, 1, 2]))
            comps.append(c)
            by_stage.setdefault(s, []).append(name)
    return comps, nstages


def gen_restart_attrs(rr, c):
    if rr.random() < 0.5:
        c['restartHookOn'] = rr.choice([[], ['ResourceExhausted'], ['KnownIssue'], ['ResourceExhausted', 'KnownIssue'],
                                        ['ResourceExhausted', 'KnownIssue', 'UnknownIssue', 'SystemIssue'],
                                        ['SubmissionFailed', 'ResourceExhausted']])
    mr = rr.choice([None, None, None, -1, 0, 1, 2, 5])
    if mr is not None:
        c['maxRestarts'] = mr
    hf = rr.choice([None, None, '', 'myhook.py', 'restart.py'])
    if hf is not None:
        c['restartHookFile'] = hf
