#!/usr/bin/env python
"""demo1 - C07 / focus (e): a user variable (or a stage/component variable) that overrides a global variable does
not reach the OTHER global variables that are defined in terms of it once the description went through
FlowIRConcrete.instance(): the stored flowir_instance.yaml, and the description that the runtime executes, contain
global variables that were resolved among themselves *before* the overrides are layered.

  package:  variables.default.global = {scratch: /tmp, workdir: "%(scratch)s/run"},  platform cluster: scratch=/gpfs
  user   :  global: {scratch: /fast}
  stage0.simulate:  arguments "--scratch %(scratch)s --workdir %(workdir)s"

The package (what is validated, what einspect/etest show) resolves to  --scratch /fast --workdir /fast/run.
The instance resolves to --scratch /fast --workdir /gpfs/run (platform cluster) or /tmp/run (platform default): two
values of `scratch` inside one command line, and a store/load cycle changes the resolved configuration.

Run:  cd /tmp/wt/H6 && PYTHONPATH=/tmp/wt/H6/python /venv/bin/python HUNT/demo1.py
Exit code 0 = property holds, 1 = defect reproduced.
"""
import logging
import os
import sys
import tempfile
import uuid
import warnings

warnings.simplefilter('ignore')
logging.disable(logging.CRITICAL)

import yaml
import experiment.model.conf
import experiment.model.data
import experiment.model.storage

PACKAGE = """
platforms: [default, cluster]
variables:
  default:
    global:
      scratch: /tmp
      workdir: "%(scratch)s/run"
  cluster:
    global:
      scratch: /gpfs
components:
- name: simulate
  stage: 0
  command:
    executable: echo
    arguments: "--scratch %(scratch)s --workdir %(workdir)s"
"""


def new_package():
    location = tempfile.mkdtemp()
    package = os.path.join(location, '%s.package' % uuid.uuid4())
    os.makedirs(os.path.join(package, 'conf'))
    with open(os.path.join(package, 'conf', 'flowir_package.yaml'), 'w') as f:
        f.write(PACKAGE)
    user = os.path.join(location, 'user-variables.yaml')
    with open(user, 'w') as f:
        yaml.safe_dump({'global': {'scratch': '/fast'}}, f)
    return location, package, user


def args_of(conf):
    return conf.configurationForNode('stage0.simulate')['command']['arguments']


problems = []
factory = experiment.model.conf.ExperimentConfigurationFactory

for platform in ['cluster', 'default']:
    print("platform %s" % platform)
    location, package, user = new_package()
    writer = factory.configurationForExperiment(package, platform=platform, primitive=True, is_instance=False,
                                                variable_files=[user], createInstanceFiles=True,
                                                updateInstanceFiles=True)
    reader = factory.configurationForExperiment(package, platform=platform, primitive=True, is_instance=True,
                                                variable_files=[user], createInstanceFiles=False,
                                                updateInstanceFiles=False)
    print("   1) store/load cycle  writer (package + user variables) : %s" % args_of(writer))
    print("                        reader (stored instance, same file): %s" % args_of(reader))
    if args_of(writer) != args_of(reader):
        problems.append("[%s] resolved configuration of stage0.simulate changes in a store/load cycle" % platform)

    location, package, user = new_package()
    os.chdir(os.path.expanduser('~'))
    pkg = experiment.model.storage.ExperimentPackage.packageFromLocation(package, platform=platform)
    exp = experiment.model.data.Experiment.experimentFromPackage(pkg, location=location, platform=platform,
                                                                 variable_files=[user])
    live = args_of(exp.configuration)
    print("   2) Experiment.experimentFromPackage(variable_files=[user])  : %s" % live)
    if '/fast/run' not in live:
        problems.append("[%s] the experiment uses two different values of `scratch` in one command line" % platform)

if problems:
    print("\nDEFECT (C07, user-supplied variables):")
    for p in problems:
        print("   - %s" % p)
    sys.exit(1)
print("OK")
sys.exit(0)
