#!/usr/bin/env python
"""demo3 - C05: a DoWhile whose looped component takes its replica count from a STAGE variable cannot be loaded
when the document is imported in a stage other than 0.

WorkflowGraph._discover_dowhile_placeholders() replicates the *template* components of the document to find the
names of the placeholders. The template components carry document-relative stages (0, 1, ...), but the stage
variables it hands to FlowIR.apply_replicate() are keyed by absolute stage. The replica count of the placeholders is
therefore resolved in the scope of the wrong stage, while the real looped components (whose stage was offset by the
stage of the $import) are replicated with the right one. The two disagree and the graph cannot be built.

Run:  cd /tmp/wt/H6 && PYTHONPATH=/tmp/wt/H6/python /venv/bin/python HUNT/demo3.py
Exit code 0 = property holds, 1 = defect reproduced.
"""
import logging
import os
import sys
import tempfile
import uuid
import warnings

warnings.simplefilter('ignore')
logging.disable(logging.CRITICAL)

import yaml
import experiment.model.data
import experiment.model.storage
from experiment.model.frontends.flowir import FlowIR

DOWHILE = """
type: DoWhile
inputBindings:
  number:
    type: output
loopBindings:
  number: collect:output
condition: 'stop/iteration.next:output'
components:
- name: work
  command:
    executable: echo
    arguments: "number:output %(replica)s"
  references: ["number:output"]
  workflowAttributes:
    replicate: "%(workers)s"
- name: collect
  command:
    executable: echo
    arguments: "work:output"
  references: ["work:output"]
  workflowAttributes:
    aggregate: true
- name: stop
  command:
    executable: echo
    arguments: "collect:output"
  references: ["collect:output"]
"""

MAIN = """
variables:
  default:
    global:
      workers: 2
    stages:
      %(var_stage)d:
        workers: 3
components:
%(seed)s
- stage: %(import_stage)d
  $import: dowhile.yaml
  name: loop
  bindings:
    number: %(seed_ref)s
"""

SEED_COMPONENT = """
- stage: 0
  name: seed
  command:
    executable: echo
    arguments: "0"
"""


def build(import_stage, var_stage, user_variables=None):
    """Creates an experiment instance out of a package whose DoWhile is imported in stage @import_stage and whose
    variable `workers` is defined (=3) for stage @var_stage (the global value is 2)."""
    location = tempfile.mkdtemp()
    package = os.path.join(location, '%s.package' % uuid.uuid4())
    os.makedirs(os.path.join(package, 'conf'))

    # the component that seeds the loop is always in stage 0 (a loop of stage 0 shares the stage with it)
    seed, seed_ref = SEED_COMPONENT, 'stage0.seed:output'

    main = MAIN % dict(var_stage=var_stage, import_stage=import_stage, seed=seed, seed_ref=seed_ref)
    if user_variables is not None:
        # the package itself has no stage variables, they are provided by the user
        doc = yaml.safe_load(main)
        doc['variables']['default']['stages'] = {}
        main = yaml.safe_dump(doc)

    with open(os.path.join(package, 'conf', 'flowir_package.yaml'), 'w') as f:
        f.write(main)
    with open(os.path.join(package, 'conf', 'dowhile.yaml'), 'w') as f:
        f.write(DOWHILE)

    variable_files = None
    if user_variables is not None:
        path = os.path.join(location, 'my-variables.yaml')
        with open(path, 'w') as f:
            yaml.safe_dump(user_variables, f)
        variable_files = [path]

    os.chdir(os.path.expanduser('~'))
    pkg = experiment.model.storage.ExperimentPackage.packageFromLocation(package)
    return experiment.model.data.Experiment.experimentFromPackage(pkg, location=location,
                                                                  variable_files=variable_files)


def describe(exp):
    graph = exp.experimentGraph
    nodes = sorted(graph.graph.nodes)
    placeholders = {k: sorted(v['represents']) for k, v in graph._placeholders.items()}
    return nodes, placeholders


def attempt(label, **kwargs):
    try:
        exp = build(**kwargs)
    except Exception as e:
        print("  %-58s -> FAILED: %s: %s" % (label, type(e).__name__, str(e).strip().splitlines()[-1][:230]))
        return False
    nodes, placeholders = describe(exp)
    workers = [n for n in nodes if '#work' in n]
    print("  %-58s -> ok, looped workers %s, placeholders %s" % (label, workers, sorted(placeholders)))

    # one more iteration, for good measure
    graph = exp.experimentGraph
    graph.update_dowhile_states()
    dw = list(graph._documents[FlowIR.LabelDoWhile].values())[0]
    graph.instantiate_dowhile_next_iteration(dw['document'], dw['state']['currentIteration'] + 1, False)
    graph.map_placeholders_to_looped_instances_of_components()
    return True


def main():
    print("The same DoWhile document (work: replicate %(workers)s -> collect: aggregate -> stop); `workers` is 2 in "
          "the global scope and 3 in the scope of the stage that holds the loop:")
    control = attempt("control: $import in stage 0, workers=3 in stage 0", import_stage=0, var_stage=0)
    offset = attempt("$import in stage 1, workers=3 in stage 1 (package)", import_stage=1, var_stage=1)
    user = attempt("$import in stage 1, workers=3 in stage 1 (user variables)", import_stage=1, var_stage=1,
                   user_variables={'stages': {1: {'workers': 3}}})
    # A stage variable of stage 0, which no looped component can see, also breaks the loop of stage 1
    other = attempt("$import in stage 1, workers=3 in stage 0 only", import_stage=1, var_stage=0)

    if not control:
        print("UNEXPECTED: the control case failed too")
        return 2

    if offset and user and other:
        print("OK: every shape could be loaded and iterated")
        return 0

    print("\nDEFECT (C05): the package is valid (the primitive package loads and validates, the looped components "
          "are replicated\ncorrectly) but the experiment cannot be created: the placeholders of the looped "
          "components are computed with the\nstage variables of stage <document-relative stage> instead of stage "
          "<stage of $import + document-relative stage>.")
    return 1


if __name__ == '__main__':
    sys.exit(main())
