#!/usr/bin/env python
"""demo2 - C07 / focus (e): folding a non-default platform into the instance description drops the part of an
environment that the platform inherits from the `default` platform (and resurrects virtual environments that the
platform replaced).

FlowIRConcrete.get_environment(name, platform) layers the platform's environment on top of the one of the `default`
platform, key by key (documented in its docstring). FlowIRConcrete.instance(platform) folds with
`environments.update(platform_environments)`, i.e. it REPLACES the whole environment by name. The stored
flowir_instance.yaml (and the replicated description that the runtime executes, which is produced by the same
method) therefore lacks every variable that only the default platform defines.

Run:  cd /tmp/wt/H6 && PYTHONPATH=/tmp/wt/H6/python /venv/bin/python HUNT/demo2.py
Exit code 0 = property holds, 1 = defect reproduced.
"""
import logging
import os
import sys
import tempfile
import uuid
import warnings

warnings.simplefilter('ignore')
logging.disable(logging.CRITICAL)

import experiment.model.conf
import experiment.model.data
import experiment.model.storage

PACKAGE = """
platforms: [default, cluster]
environments:
  default:
    mpi:
      OMP_NUM_THREADS: "4"
      LD_LIBRARY_PATH: /opt/default/lib
  cluster:
    mpi:
      LD_LIBRARY_PATH: /opt/cluster/lib
virtual-environments:
  default: [/venvs/a/pyenv, /venvs/a/tools]
  cluster: [/venvs/b/pyenv]
components:
- name: simulate
  stage: 0
  command:
    executable: echo
    environment: mpi
"""
KEYS = ['OMP_NUM_THREADS', 'LD_LIBRARY_PATH']


def new_package():
    location = tempfile.mkdtemp()
    package = os.path.join(location, '%s.package' % uuid.uuid4())
    os.makedirs(os.path.join(package, 'conf'))
    with open(os.path.join(package, 'conf', 'flowir_package.yaml'), 'w') as f:
        f.write(PACKAGE)
    return location, package


def env_of(conf):
    env = conf.environmentForNode('stage0.simulate')
    return {k: env.get(k) for k in KEYS}


def venvs_of(conf):
    return conf.get_flowir_concrete(return_copy=False).get_virtual_environments()


problems = []
factory = experiment.model.conf.ExperimentConfigurationFactory

print("1) store/load cycle of the (primitive) description, platform `cluster`")
location, package = new_package()
writer = factory.configurationForExperiment(package, platform='cluster', primitive=True, is_instance=False,
                                            createInstanceFiles=True, updateInstanceFiles=True)
reader = factory.configurationForExperiment(package, platform='cluster', primitive=True, is_instance=True,
                                            createInstanceFiles=False, updateInstanceFiles=False)
print("   writer (package)  : env %s  venvs %s" % (env_of(writer), venvs_of(writer)))
print("   reader (instance) : env %s  venvs %s" % (env_of(reader), venvs_of(reader)))
if env_of(writer) != env_of(reader):
    problems.append("environment of stage0.simulate changes in a store/load cycle")
if venvs_of(writer) != venvs_of(reader):
    problems.append("virtual environments change in a store/load cycle")

print("2) the experiment that elaunch would run (Experiment.experimentFromPackage, platform `cluster`)")
location, package = new_package()
os.chdir(os.path.expanduser('~'))
pkg = experiment.model.storage.ExperimentPackage.packageFromLocation(package, platform='cluster')
print("   package as validated : env %s" % env_of(pkg.configuration))
exp = experiment.model.data.Experiment.experimentFromPackage(pkg, location=location, platform='cluster',
                                                             createVirtualEnvLinks=False)
print("   experiment instance  : env %s" % env_of(exp.configuration))
if env_of(pkg.configuration) != env_of(exp.configuration):
    problems.append("the instance runs stage0.simulate with another environment than the package defines")

if problems:
    print("\nDEFECT (C07):")
    for p in problems:
        print("   - %s" % p)
    sys.exit(1)
print("OK")
sys.exit(0)
