#!/usr/bin/env python
"""demo4 - focus (d), replicate + aggregate through file paths: an aggregating component that reads TWO different
files of the same replicated producer through `<producer>:ref/<path>` ends up reading the FIRST file twice; the
second path silently disappears from its command line.

FlowIR.compile_component_aggregate() finds the first `<ref>/<path>` in the string, builds the replacement for THAT
path and then calls expression.sub(replacement, string), which substitutes every `<ref>/<any path>` of the string with
it. (Replicated, i.e. non aggregating, consumers of the same producer are rewritten correctly.)

Run:  cd /tmp/wt/H6 && PYTHONPATH=/tmp/wt/H6/python /venv/bin/python HUNT/demo4.py
Exit code 0 = correct, 1 = defect reproduced.
"""
import logging
import os
import sys
import tempfile
import uuid
import warnings

warnings.simplefilter('ignore')
logging.disable(logging.CRITICAL)

import experiment.model.data
import experiment.model.storage

PACKAGE = """
components:
- name: simulate
  stage: 0
  command:
    executable: echo
    arguments: "%(replica)s"
  workflowAttributes:
    replicate: 2
- name: analyse
  stage: 1
  command:
    executable: python
    arguments: "--energies stage0.simulate:ref/energy.csv --forces stage0.simulate:ref/forces.csv"
  references: ["stage0.simulate:ref"]
  workflowAttributes:
    aggregate: true
- name: per-replica
  stage: 1
  command:
    executable: python
    arguments: "--energies stage0.simulate:ref/energy.csv --forces stage0.simulate:ref/forces.csv"
  references: ["stage0.simulate:ref"]
"""

location = tempfile.mkdtemp()
package = os.path.join(location, '%s.package' % uuid.uuid4())
os.makedirs(os.path.join(package, 'conf'))
with open(os.path.join(package, 'conf', 'flowir_package.yaml'), 'w') as f:
    f.write(PACKAGE)

os.chdir(os.path.expanduser('~'))
pkg = experiment.model.storage.ExperimentPackage.packageFromLocation(package)
exp = experiment.model.data.Experiment.experimentFromPackage(pkg, location=location)
conf = exp.configuration

for node in ['stage1.per-replica0', 'stage1.per-replica1']:
    print("%-22s %s" % (node, conf.configurationForNode(node, raw=True)['command']['arguments']))

actual = conf.configurationForNode('stage1.analyse', raw=True)['command']['arguments']
expected = ("--energies stage0.simulate0:ref/energy.csv stage0.simulate1:ref/energy.csv "
            "--forces stage0.simulate0:ref/forces.csv stage0.simulate1:ref/forces.csv")
print("%-22s %s" % ('stage1.analyse', actual))
print("%-22s %s" % ('   expected', expected))

if actual != expected:
    print("\nDEFECT: `forces.csv` is never passed to the aggregating component (it receives energy.csv twice); "
          "nothing is reported.")
    sys.exit(1)

print("OK")
sys.exit(0)
