#!/usr/bin/env python
"""demo6 - C08, interleaving: a query that overlaps an update writes its (already outdated) result into the cache
AFTER the update invalidated it. Every later query, from any thread, returns the outdated configuration.

FlowIRConcrete.get_component_configuration() does  `miss -> read description -> resolve -> cache[label] = result`
without holding the cache lock or checking that the description is still the one it read. An update that lands between
"read description" and "cache[label] = result" (set_component_variable / setOptionForNode / update_component /
set_global_variable, ... all of them invalidate the cache *before or while* they change the description) is undone, as
far as queries are concerned, by the late store.

The window is forced here by stalling the reader thread inside FlowIR.convert_component_types (the step between
resolving and storing); nothing else is patched.

Run:  cd /tmp/wt/H6 && PYTHONPATH=/tmp/wt/H6/python /venv/bin/python HUNT/demo6.py
Exit code 0 = property holds, 1 = defect reproduced.
"""
import logging
import sys
import threading
import warnings

warnings.simplefilter('ignore')
logging.disable(logging.CRITICAL)

import yaml
import experiment.model.conf
from experiment.model.frontends.flowir import FlowIR, FlowIRConcrete

FLOWIR = yaml.safe_load("""
components:
- name: simulate
  stage: 0
  command:
    executable: echo
    arguments: "walltime=%(walltime)s"
  variables:
    walltime: 60
""")

concrete = FlowIRConcrete(FLOWIR, None, {})
conf = experiment.model.conf.FlowIRExperimentConfiguration(
    path=None, platform=None, variable_files=None, system_vars=None, is_instance=False, createInstanceFiles=False,
    primitive=True, concrete=concrete, updateInstanceFiles=False)
concrete = conf.get_flowir_concrete(return_copy=False)


def query():
    return conf.configurationForNode('stage0.simulate')['command']['arguments']


reader_is_in_window = threading.Event()
update_is_done = threading.Event()
original = FlowIR.convert_component_types
reader_thread = []


def stalled_convert_component_types(*args, **kwargs):
    if threading.current_thread() in reader_thread:
        reader_is_in_window.set()
        update_is_done.wait(30)
    return original(*args, **kwargs)


FlowIR.convert_component_types = staticmethod(stalled_convert_component_types)

results = {}


def reader():
    results['reader'] = query()


t = threading.Thread(target=reader)
reader_thread.append(t)
t.start()
assert reader_is_in_window.wait(30), "the reader never reached the window"

# the update: e.g. a restart hook / the controller raises the walltime of the component
conf.setOptionForNode('stage0.simulate', 'walltime', 120)
results['right-after-update'] = query()
update_is_done.set()
t.join(30)
FlowIR.convert_component_types = original

after = [query() for _ in range(3)]
scratch = FlowIRConcrete(concrete.raw(), None, {}).get_component_configuration(
    (0, 'simulate'), include_default=True)['command']['arguments']

print("query that overlapped the update returned : %s   (fine: it started before the update)" % results['reader'])
print("query right after the update returned     : %s" % results['right-after-update'])
print("queries after the reader finished return  : %s" % after)
print("description, resolved from scratch        : %s" % scratch)
print("raw variables of the component            : %s" % concrete.get_component((0, 'simulate'))['variables'])

if any(x != scratch for x in after):
    print("\nDEFECT (C08): the update is in the description but every query keeps answering with the configuration "
          "that was\nresolved before it (the cache entry is never invalidated again).")
    sys.exit(1)

print("OK")
sys.exit(0)
