#!/usr/bin/env python
"""demo5 - C08: after a platform is created through the configuration interface (add_platform(), or simply setting
a platform variable of a platform that did not exist) every query for that platform raises, although the very same
description answers the query when it is loaded from scratch.

Related (same root cause: the mutators do not create the containers that FlowIR.inject_default_values() creates when
a description is loaded):
  * set_stage_variable() raises KeyError for a stage that has no variables yet
  * get_default_stage_variables(stage, return_copy=False) / get_platform_stage_variables(.., return_copy=False) return
    a dictionary that is NOT part of the description for such a stage: the update is silently lost.

Run:  cd /tmp/wt/H6 && PYTHONPATH=/tmp/wt/H6/python /venv/bin/python HUNT/demo5.py
Exit code 0 = property holds, 1 = defect reproduced.
"""
import logging
import sys
import warnings

warnings.simplefilter('ignore')
logging.disable(logging.CRITICAL)

import yaml
from experiment.model.frontends.flowir import FlowIRConcrete

FLOWIR = yaml.safe_load("""
variables:
  default:
    global:
      backend: local
      x: 1
components:
- name: hello
  stage: 0
  command:
    executable: echo
    arguments: "%(backend)s %(x)s"
  variables: {}
""")

COMP = (0, 'hello')
problems = []


def resolved(concrete, platform):
    return concrete.get_component_configuration(COMP, include_default=True, platform=platform)['command']['arguments']


def from_scratch(concrete, platform):
    return resolved(FlowIRConcrete(concrete.raw(), platform, {}), platform)


def compare(label, concrete, platform):
    expected = from_scratch(concrete, platform)
    try:
        actual = resolved(concrete, platform)
    except Exception as e:
        actual = '%s: %s' % (type(e).__name__, str(e).splitlines()[0][:90])
    status = 'same' if actual == expected else 'DIFFERENT'
    print("  %-62s live=%r  from-scratch=%r  [%s]" % (label, actual, expected, status))
    if actual != expected:
        problems.append(label)


print("History 1: add_platform('cluster'), then set a variable of the new platform")
c = FlowIRConcrete(FLOWIR, None, {})
compare("initial, platform default", c, 'default')
c.add_platform('cluster')
compare("after add_platform('cluster')", c, 'cluster')
c.set_platform_global_variable('backend', 'lsf', platform='cluster')
compare("after set_platform_global_variable(backend=lsf, cluster)", c, 'cluster')
try:
    c.instance(platform='cluster')
    print("  instance('cluster') works")
except Exception as e:
    print("  instance('cluster') raises %s: %s" % (type(e).__name__, str(e).splitlines()[0][:90]))
    problems.append("instance() of the new platform")

print("History 2: no add_platform(), a platform variable is set for a platform that does not exist yet")
c = FlowIRConcrete(FLOWIR, None, {})
c.set_platform_global_variable('backend', 'k8s', platform='cloud')
print("  platforms are now %s" % c.platforms)
compare("after set_platform_global_variable(backend=k8s, cloud)", c, 'cloud')

print("History 3: stage variables of a stage that has none yet (platform default)")
c = FlowIRConcrete(FLOWIR, None, {})
try:
    c.set_stage_variable(0, 'x', 5)
    compare("after set_stage_variable(0, x, 5)", c, 'default')
except Exception as e:
    print("  set_stage_variable(0, 'x', 5) raises %s: %s" % (type(e).__name__, e))
    problems.append("set_stage_variable on a stage without variables")

c = FlowIRConcrete(FLOWIR, None, {})
ref = c.get_default_stage_variables(0, return_copy=False)
ref['x'] = 7
live = resolved(c, 'default')
print("  get_default_stage_variables(0, return_copy=False)['x'] = 7 -> query returns %r, stage variables are %r" % (
    live, c.get_default_stage_variables(0)))
if live != 'local 7':
    problems.append("update through get_default_stage_variables(return_copy=False) is lost")

if problems:
    print("\nDEFECT (C08): %d observations differ from a description computed from scratch / lose the update:" %
          len(problems))
    for p in problems:
        print("   - %s" % p)
    sys.exit(1)

print("OK")
sys.exit(0)
