#!/usr/bin/env python
"""demo3 - properties C02/C12: restarting an instance from a stage (elaunch.py --restart=1, restart hooks on, which
is the default) hangs for ever when a component of that stage has `maxRestarts: 0`.

Run:  cd /tmp/wt/H1 && PYTHONPATH=/tmp/wt/H1/python /venv/bin/python HUNT/demo3.py
Exits 1 (and prints what is wrong) on the unmodified code.

Workflow: stage0.skip_this (already done), stage1.exec_this with workflowAttributes.maxRestarts: 0.
The controller is created exactly like tests/test_control.py::test_controller_restart_from_stage does, plus
do_restart_sources={1: True}, which is what scripts/elaunch.py passes for the stage named by --restart.

Expected: the refused restart gives the component a final state (C12: "once a restart is refused the component
receives its final state") and the stage loop terminates (C02).
Observed: Engine.restart() answers RestartMaxAttemptsExceeded; Controller.finalize_submit_components() only handles
RestartNotRequired and RestartCouldNotInitiate, so the component is neither run nor finished: it stays `running`
with an engine that was never started, and Controller.run() never returns.

FINDING (C02, C12)
Code responsible:
  * control.py:1372-1393  finalize_submit_components(): for a "restarted source" it calls
                          _restartComponent(comp, ResourceExhausted, 0) and handles only RestartNotRequired (-> finished)
                          and RestartCouldNotInitiate (-> KnownIssue)
  * engine.py:864-874     Engine.restart() checks the budget first: restarts + 1 > maxRestarts -> always
                          RestartMaxAttemptsExceeded for maxRestarts: 0 (documented as "0: cannot restart at all")
  * scripts/elaunch.py:1726-1740  --restart=N sets do_restart_sources[N] = True unless --noRestartHooks is given
  The component is in comp_staged_in and subscribed, but has neither a started engine nor a final state, so
  get_active_components() in Controller.run() is never empty.
Why a defect: postMortemCheck() gives a final state for every code other than RestartInitiated; the cold-restart path
  forgot one of the four return values that _restartComponent's own docstring lists. Arguably the first launch after
  --restart should not be charged to the restart budget at all.
Suggested fix: in finalize_submit_components() add
  `elif restartCode != RestartInitiated: TransitionComponentToFinalState(comp, exitReasons['KnownIssue'], returncode=1)`
  or, friendlier, fall back to comp.run() when an engine that never ran answers RestartMaxAttemptsExceeded.
"""
import logging
import os
import sys
import tempfile
import threading
import time
import warnings

warnings.filterwarnings('ignore')
logging.basicConfig(level=logging.CRITICAL + 1)
HERE = os.path.dirname(os.path.abspath(__file__))
sys.path.insert(0, os.path.join(os.path.dirname(HERE), 'tests'))

import experiment.model.codes
import experiment.runtime.workflow as workflow
import utils

FLOWIR = """
blueprint:
  default:
    global:
      resourceManager:
        config:
          backend: simulator
      command:
        executable: "fake_executable"
        arguments: "fake_arguments"
variables:
  default:
    global:
      sim_expected_exit_code: 0
      sim_range_execution_time: 0
      sim_range_schedule_overhead: 0

components:
- name: skip_this
- name: exec_this
  stage: 1
  workflowAttributes:
    maxRestarts: %s
"""

restart_codes = []
original_restart = workflow.ComponentState.restart


def restart(self, reason=None, code=None):
    ret = original_restart(self, reason=reason, code=code)
    restart_codes.append((self.specification.reference, reason, ret))
    return ret


workflow.ComponentState.restart = restart


def scenario(max_restarts, patience):
    controller = utils.generate_controller_for_flowir(
        FLOWIR % max_restarts, tempfile.mkdtemp(prefix='demo3-'), initial_stage=1, do_restart_sources={1: True})
    comp = controller.get_compstate('stage1.exec_this')
    hung = {}

    def failsafe():
        hung['state'] = comp.state
        hung['engine_run_called'] = comp.engine._runCalled is not None
        hung['finish_called'] = comp.finishCalled
        controller.killController('demo failsafe')

    timer = threading.Timer(patience, failsafe)
    timer.daemon = True
    timer.start()
    started = time.time()
    try:
        controller.run()
        verdict = 'returned normally'
    except Exception as e:
        verdict = 'raised %s' % type(e).__name__
    timer.cancel()
    elapsed = time.time() - started
    controller.cleanUp()
    return verdict, elapsed, hung, comp.state


print("control: maxRestarts=1, restart from stage 1")
verdict, elapsed, hung, state = scenario('1', 40)
print("   run() %s after %.0fs, stage1.exec_this is '%s', restart codes: %s" % (verdict, elapsed, state, restart_codes))
control_ok = (not hung) and state == experiment.model.codes.FINISHED_STATE

del restart_codes[:]
print("test: maxRestarts=0, restart from stage 1")
verdict, elapsed, hung, state = scenario('0', 40)
print("   restart codes: %s" % restart_codes)
if hung:
    print("   run() did not return within 40s; at that moment stage1.exec_this was '%s' (engine.run() ever called: %s, "
          "finish() ever called: %s); after the external kill run() %s" % (
              hung['state'], hung['engine_run_called'], hung['finish_called'], verdict))
else:
    print("   run() %s after %.0fs, stage1.exec_this is '%s'" % (verdict, elapsed, state))

bad = bool(hung)
if bad:
    print("DEFECT (C02/C12): the restart was refused (RestartMaxAttemptsExceeded) but the component never received a "
          "final state, it was never launched either, and the stage loop never terminates "
          "(control.py, finalize_submit_components(): only RestartNotRequired / RestartCouldNotInitiate are handled).")
if not control_ok:
    print("WARNING: the control scenario did not behave as expected")
sys.stdout.flush()
os._exit(1 if bad else 0)
