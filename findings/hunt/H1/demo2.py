#!/usr/bin/env python
"""demo2 - property C13: a repeating engine whose task cannot be submitted after its producers finished never stops.

Run:  cd /tmp/wt/H1 && PYTHONPATH=/tmp/wt/H1/python /venv/bin/python HUNT/demo2.py
Exits 1 (and prints what is wrong) on the unmodified code, 0 if the engine honours `repeatRetries`.

Scenario (engine level, exactly what ComponentState does for an observer):
  * observer `stage1.observer` (repeatInterval 1, repeatRetries 1) consumes `stage0.producer`
  * engine.run(); its first execution succeeds (simulator backend)
  * the producers finish -> ComponentState calls engine.notify_all_producers_finished()
  * from then on the backend refuses submissions: the task generator raises (LSF/k8s down, JobLaunchError, OSError ...)
Specification: after the producers finished the engine stops on its own after a bounded number of further
attempts: the first success, or when its retries (1 here -> at most 2 attempts) are used up.
Observed: the failed launch raises AttributeError inside EngineTaskController *before* repeatRetries is
decremented; the Monitor logs it, sleeps 5s and calls the action again, forever.

FINDING (C13, and C02 because the component never leaves `running`)
Code responsible: engine.py RepeatingEngine.run.<EngineTaskController>
  * 1808       did_i_execute = True is set before the launch is attempted
  * 1822-1829  the `except Exception` branch of self.taskGenerator(...) leaves my_process = None
  * 1890       `if did_i_execute and my_process.returncode == 0:` dereferences None; this line is only reached when
               `producers_done_when_i_started or self._suicide`, i.e. exactly during the termination protocol
  * 1898-1902  (repeatRetries -= 1 / self.kill()) are never reached
  * monitor.py:341-343,366-370  CreateMonitor wraps the error in MonitorActionError, logs "MONITOR EXCEPTION", sleeps 5s
               and calls the action again, skipping the interval wait
Why a defect: the `else: # I didn't execute the kernel or it failed` branch right below is the intended handling of a
  failed last execution; a failed *launch* is explicitly anticipated ("Exception when generating
  RepeatingEngineTask!") but not when did_i_execute is tested. Before the producers finish the same failure is
  harmless (line 1890 is not reached), which is why tests do not see it. Without kill-after-producers-done-delay
  nothing ends the engine: the backend is hammered every 5s and the stage never completes.
Suggested fix: `if did_i_execute and my_process is not None and my_process.returncode == 0:` (or set did_i_execute in
  the `else:` of the try). The failed launch then consumes a repeatRetries and the engine kills itself at 0.
"""
import logging
import os
import sys
import tempfile
import time

HERE = os.path.dirname(os.path.abspath(__file__))
sys.path.insert(0, os.path.join(os.path.dirname(HERE), 'tests'))
import warnings
warnings.filterwarnings('ignore')
logging.basicConfig(level=logging.CRITICAL + 1)


class Capture(logging.Handler):
    records = []

    def emit(self, record):
        Capture.records.append(record.getMessage())


logging.getLogger('monitor').addHandler(Capture())
logging.getLogger('monitor').propagate = False
logging.getLogger('monitor').setLevel(logging.CRITICAL)

import experiment.runtime.monitor as monitor_module
import experiment.runtime.engine
import experiment.runtime.backends
import utils

# The monitor sleeps 5s between polls/after an exception: scale its sleeps so that the demo is short.
SCALE = 0.05
_real_sleep = time.sleep


class ScaledTime(object):
    def __getattr__(self, name):
        return getattr(time, name)

    @staticmethod
    def sleep(seconds):
        _real_sleep(seconds * SCALE)


monitor_module.time = ScaledTime()

FLOWIR = """
blueprint:
  default:
    global:
      resourceManager:
        config:
          backend: simulator
      command:
        executable: "fake_executable"
variables:
  default:
    global:
      sim_expected_exit_code: 0
      sim_range_execution_time: 0
      sim_range_schedule_overhead: 0
components:
- name: producer
- name: observer
  stage: 1
  command:
    arguments: stage0.producer:ref
  references:
    - stage0.producer:ref
  workflowAttributes:
    repeatInterval: 1
    repeatRetries: 1
"""

exp = utils.experiment_from_flowir(FLOWIR, tempfile.mkdtemp(prefix='demo2-'))
job = exp.findJob(1, 'observer')
# the simulator wants the (stage 0) producer to have finished
with open(os.path.join(exp.findJob(0, 'producer').workingDirectory.path, 'finished.txt'), 'w') as f:
    f.write('done')
engine = experiment.runtime.engine.Engine.engineForComponentSpecification(job)
assert isinstance(engine, experiment.runtime.engine.RepeatingEngine)

real_generator = engine.taskGenerator
state = {'backend_down': False, 'ok': 0, 'failed_after_producers_done': 0}


def task_generator(*args, **kwargs):
    if state['backend_down']:
        state['failed_after_producers_done'] += 1
        raise OSError("backend refuses the submission")
    state['ok'] += 1
    return real_generator(*args, **kwargs)


engine.taskGenerator = task_generator

# schedule_next_instance() enforces "5 real seconds since the last task finished"; that is wall-clock and not
# routed through time.sleep, so the demo just lives with it (each attempt needs >= 5s only while tasks succeed).
engine.run()
deadline = time.time() + 30
while state['ok'] == 0 and time.time() < deadline:
    _real_sleep(0.1)
assert state['ok'] >= 1, "the first execution never happened"

retries_configured = engine._stateDict['repeatRetries']
state['backend_down'] = True
engine.notify_all_producers_finished()

# Allowed by the specification: 1 attempt + `repeatRetries` more = 2. Give the engine 25 real seconds
# (= 500 simulated seconds of monitor sleeps).
bound = 1 + retries_configured
deadline = time.time() + 25
while engine.isAlive() and time.time() < deadline:
    _real_sleep(0.25)

attempts = state['failed_after_producers_done']
alive = engine.isAlive()
retries_left = engine._stateDict['repeatRetries']
print("repeatRetries configured: %d -> at most %d attempts after the producers finished" % (retries_configured, bound))
print("attempts observed after producers finished: %d" % attempts)
print("engine.isAlive(): %s   exitReason: %s   repeatRetries left: %d" % (alive, engine.exitReason(), retries_left))

bad = alive or attempts > bound
monitor_errors = [[l.strip() for l in m.splitlines() if 'Error' in l and 'File' not in l][:2]
                  for m in Capture.records if 'MONITOR EXCEPTION' in m]
if monitor_errors:
    print("monitor logged %d exceptions, e.g.: %s" % (len(monitor_errors), monitor_errors[0]))
if bad:
    print("DEFECT (C13): the repeating engine does not stop on its own: every failed launch raises "
          "AttributeError ('NoneType' object has no attribute 'returncode') in EngineTaskController "
          "(engine.py, `if did_i_execute and my_process.returncode == 0`) before repeatRetries is consumed; "
          "the Monitor swallows it and retries every 5s for ever.")
engine.kill()
_real_sleep(1)
sys.stdout.flush()
os._exit(1 if bad else 0)
