#!/usr/bin/env python
"""demo1 - properties C01/C02: an observer of a subject that was shut down before it ever ran is launched,
and whether that happens depends on the iteration order of the graph (hash seed): same workflow, two verdicts.

Run:  cd /tmp/wt/H1 && PYTHONPATH=/tmp/wt/H1/python /venv/bin/python HUNT/demo1.py
Exits 1 (and prints what is wrong) on the unmodified code.

Workflow (one stage, simulator backend, shutdownOn: [KnownIssue] for every component):
    P  exits 1 (KnownIssue)                   -> rule: shut down
    S  consumes P:ref                         -> rule: shut down without being launched (producer is shut down)
    O  repeatInterval 5, observes S:ref       -> rule: shut down without being launched (S is shut down)
 => every leaf is shut down: Controller.run() must raise FinalStageNoFinishedLeafComponents.

The parent process runs the same workflow in child interpreters that differ only in PYTHONHASHSEED (it decides the
order of WorkflowGraph.graph.nodes, which is the order in which Controller._schedule() visits the components).

FINDING (C01 last sentence, C02)
Code responsible:
  * control.py:1127-1132  _schedule(): S has a SHUTDOWN producer -> _fake_finish_with_state(S, SHUTDOWN)
  * control.py:915        _fake_finish_with_state() does self.comp_staged_in.add(component) and then component.finish();
                          S's engine never ran, so ComponentState._finish() (workflow.py:730-756) only *requests* the
                          final state (subscribe to own POSTMORTEM + engine.kill()); S.state stays running/checking
                          for several thread hops
  * control.py:1016-1030  _input_dependencies_satisfied(): "a Subject->Observer dependency is satisfied IFF the Subject
                          is staged-in" -> true for O because of the line above
  * control.py:1127       producers_shutdown = [... if pr.state == SHUTDOWN_STATE] reads the not yet updated S.state in
                          the same pass -> O goes to `ready`, is staged in and run()
  If O is visited before S, S is not yet in comp_staged_in, O waits, and on a later pass S.state is final -> O is shut
  down. So the outcome (O finished + run() returns normally, versus O shut down + FinalStageNoFinishedLeafComponents)
  depends on the iteration order of graph.nodes, which changes with PYTHONHASHSEED.
Why a defect: _schedule() plainly intends to shut O down ("Non Aggregating component %s will shutdown because of
  SHUTDOWN inputs") and does so in the other order. comp_staged_in means both "was submitted" (what the observer rule
  needs) and "do not consider again" (why fake-finish adds to it); a fake-finished subject was never launched.
  In the bad ordering an experiment in which nothing useful ran is reported as successful.
Suggested fix: in _input_dependencies_satisfied() reject a subject on which finish() was called:
  `if comp not in self.comp_staged_in or comp.finishCalled: return False`; O is re-examined once S is in comp_done
  (no longer an active predecessor) and the existing failed/shutdown rules then see the final S.state.
"""
import json
import os
import subprocess
import sys

HERE = os.path.dirname(os.path.abspath(__file__))
ROOT = os.path.dirname(HERE)

FLOWIR = """
blueprint:
  default:
    global:
      resourceManager:
        config:
          backend: simulator
      command:
        executable: "fake_executable"
      workflowAttributes:
        shutdownOn:
          - KnownIssue
variables:
  default:
    global:
     sim_range_execution_time: 0
     sim_range_schedule_overhead: 0
     sim_restart: 'no'

components:
- name: P
  variables:
    sim_expected_exit_code: 1
- name: S
  command:
    arguments: P:ref
  references:
    - P:ref
- name: O
  command:
    arguments: S:ref
  references:
    - S:ref
  workflowAttributes:
    repeatInterval: 5
"""


def child():
    import logging
    import tempfile
    import threading
    import time
    import warnings
    warnings.filterwarnings('ignore')
    logging.basicConfig(level=logging.CRITICAL + 1)
    sys.path.insert(0, os.path.join(ROOT, 'tests'))
    import experiment.runtime.control as control
    import experiment.runtime.workflow as workflow
    import utils

    # Controller._restartComponent() sleeps 25s before declaring that P cannot be restarted: shorten it.
    real_sleep = time.sleep

    class ShortSleep(object):
        def __getattr__(self, name):
            return getattr(time, name)

        @staticmethod
        def sleep(seconds):
            real_sleep(min(seconds, 0.5))

    control.time = ShortSleep()

    # Observation point: ComponentState.run() is what submits a component (engine.run()).
    launched = []
    original_run = workflow.ComponentState.run

    def run(self):
        launched.append({'component': self.specification.reference,
                         'producers': {p.specification.reference: p.state for p in self.producers},
                         'producers_finish_called': {p.specification.reference: p.finishCalled
                                                     for p in self.producers}})
        return original_run(self)

    workflow.ComponentState.run = run

    controller = utils.generate_controller_for_flowir(FLOWIR, tempfile.mkdtemp(prefix='demo1-'))
    failsafe = threading.Timer(90, lambda: controller.killController('demo failsafe'))
    failsafe.daemon = True
    failsafe.start()
    try:
        controller.run()
        verdict = 'run() returned normally (stage reported as successful)'
    except Exception as e:
        verdict = 'run() raised %s' % type(e).__name__

    result = {
        'order': list(controller.graph.nodes),
        'verdict': verdict,
        'states': {n: controller.get_compstate(n).state for n in controller.graph.nodes},
        'launched': launched,
    }
    sys.stdout.write('RESULT ' + json.dumps(result) + '\n')
    sys.stdout.flush()
    os._exit(0)


def main():
    seeds = ['0', '1', '2', '3', '4', '5']
    procs = []
    for seed in seeds:
        env = dict(os.environ)
        env['PYTHONHASHSEED'] = seed
        env['PYTHONPATH'] = os.path.join(ROOT, 'python') + os.pathsep + env.get('PYTHONPATH', '')
        procs.append((seed, subprocess.Popen([sys.executable, os.path.abspath(__file__), '--child'], env=env,
                                             stdout=subprocess.PIPE, stderr=subprocess.DEVNULL,
                                             universal_newlines=True)))
    results = {}
    for seed, proc in procs:
        try:
            out, _ = proc.communicate(timeout=110)
        except subprocess.TimeoutExpired:
            proc.kill()
            continue
        for line in out.splitlines():
            if line.startswith('RESULT '):
                results[seed] = json.loads(line[len('RESULT '):])

    violations = []
    for seed in seeds:
        r = results.get(seed)
        if r is None:
            print("seed %s: no result" % seed)
            continue
        launched = [l['component'] for l in r['launched']]
        print("seed %s: visit order %s\n        launched: %s\n        final: %s\n        %s" % (
            seed, [n.split('.')[1] for n in r['order']], launched, r['states'], r['verdict']))
        for l in r['launched']:
            if l['component'] == 'stage0.O':
                violations.append(
                    "seed %s: stage0.O was submitted although stage0.S had already been shut down by the scheduler "
                    "(finish(SHUTDOWN) called on S: %s, state of S at that moment: %s); O ended '%s' instead of "
                    "'component_shutdown' and %s" % (
                        seed, l['producers_finish_called']['stage0.S'], l['producers']['stage0.S'],
                        r['states']['stage0.O'], r['verdict']))

    verdicts = set(r['verdict'] for r in results.values())
    if len(verdicts) > 1:
        violations.append("the same workflow with the same exit codes has %d different outcomes: %s" % (
            len(verdicts), sorted(verdicts)))

    if violations:
        print("\nDEFECT (C01: consumer of a shut-down producer is launched; C02: outcome depends on ordering):")
        for v in violations:
            print("  - " + v)
        return 1
    print("no violation observed")
    return 0


if __name__ == '__main__':
    if '--child' in sys.argv:
        child()
    else:
        sys.exit(main())
