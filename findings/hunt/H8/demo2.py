#!/usr/bin/env python
"""demo2: an error in the state stream of ONE engine makes Controller.run() hang for ever (C02).

Legal input used to make an engine's stream fail: a repeating component with a very large repeatInterval
(validated by FlowIR as int/float). RepeatingEngine.stateDictionary computes
    lastKernelFinishedDate + timedelta(seconds=nextRepeatInterval())
which raises OverflowError, the engine's stateUpdates observable dies with on_error, so does the ComponentState's,
the controller calls handleError() -> kill_all_components() ... and then waits for ever: the component whose stream
died can never receive a final state, and the components that were submitted in the same batch are never observed.

Run:  cd /tmp/wt/H8 && PYTHONPATH=/tmp/wt/H8/python /venv/bin/python -W ignore HUNT/demo2.py
"""
import warnings
warnings.filterwarnings('ignore')
import logging
import os
import sys
import tempfile
import threading
import time

here = os.path.dirname(os.path.abspath(__file__))
sys.path.insert(0, os.path.dirname(here))  # for tests.utils

import experiment.model.codes
import experiment.runtime.engine
from tests.utils import generate_controller_for_flowir

logging.basicConfig(level=logging.CRITICAL + 1)
logging.disable(logging.CRITICAL)

# no artificial launch delay (same as tests/conftest.py)
experiment.runtime.engine.ENGINE_LAUNCH_DELAY_SECONDS = 0.0

FLOWIR = """
components:
- name: source
  stage: 0
  command:
    executable: sleep
    arguments: "600"
- name: watch_rarely
  stage: 0
  command:
    executable: ls
    arguments: source:ref
  references:
  - source:ref
  workflowAttributes:
    # "practically never on a timer, just once when the producer is done"
    repeatInterval: 1000000000000
- name: watch_often
  stage: 0
  command:
    executable: ls
    arguments: source:ref
  references:
  - source:ref
  workflowAttributes:
    repeatInterval: 5
"""

BUDGET = 55.0


def main():
    location = tempfile.mkdtemp(prefix='h8demo2')
    controller = generate_controller_for_flowir(FLOWIR, location)

    errors = []
    original_handle_error = controller.handleError

    def spy_handle_error(error, origin='unknown'):
        errors.append((repr(error), origin))
        return original_handle_error(error, origin)

    controller.handleError = spy_handle_error

    outcome = {}

    def run():
        try:
            controller.run()
            outcome['result'] = 'returned'
        except BaseException as e:
            outcome['result'] = 'raised %s' % type(e).__name__

    started = time.time()
    t = threading.Thread(target=run, daemon=True)
    t.start()
    t.join(BUDGET)

    print("%.0fs after start: Controller.run() %s" % (
        time.time() - started, outcome.get('result', 'IS STILL RUNNING')))
    print("controller.handleError() calls: %d" % len(errors))
    for err, origin in errors[:2]:
        print("   %s   [%s]" % (err, origin[:70]))
    print("controller.stop_executing = %s" % controller.stop_executing)
    for name in ['stage0.source', 'stage0.watch_rarely', 'stage0.watch_often']:
        comp = controller.get_compstate(name)
        print("  %-20s state=%-18s finishCalled=%-5s engine.isAlive=%-5s observed-done=%s" % (
            name, comp.state, comp.finishCalled, comp.engine.isAlive(), name in controller.comp_done))

    bad = t.is_alive()
    if bad:
        print("DEFECT: after the error the controller stopped every component (their engines are dead) but the stage "
              "loop never terminates: 'watch_rarely' is left in POSTMORTEM ('checking') for ever because its own "
              "state stream - the only thing that could deliver its final state - is the one that died, and "
              "'watch_often' reached SHUTDOWN but is never recorded in comp_done because the merged "
              "notifyFinished subscription of its batch died with the same error.")
    try:
        proc = controller.get_compstate('stage0.source').engine.process
        if proc is not None:
            proc.kill()
    except Exception:
        pass
    sys.stdout.flush()
    os._exit(1 if bad else 0)


if __name__ == '__main__':
    main()
