#!/usr/bin/env python
"""demo3: lock-order inversion between the completion-hook path and kill_all_components() -> dead-lock (C02).

  thread A (completion hook, Controller._observe_completionCheck.closure):   opt_lock  -> comp_lock
  thread B (cleanUp()/killController()/handleError()/finishedCheck() of a failed component of a future stage
            -> kill_all_components(True) -> disable_optimizer()):             comp_lock -> opt_lock

The script lets the hook report "stage complete" and, while thread A is between taking opt_lock and asking for
comp_lock (we stall it there for 2 seconds, i.e. the thread is descheduled), calls Controller.cleanUp() exactly like
elaunch.py does when it is interrupted. Nothing else is changed. Expected: cleanUp() returns and run() ends.

Run:  cd /tmp/wt/H8 && PYTHONPATH=/tmp/wt/H8/python /venv/bin/python -W ignore HUNT/demo3.py
(control experiment without the stall, everything terminates:  H8_NO_STALL=1 ... HUNT/demo3.py  -> exit 0)
"""
import warnings
warnings.filterwarnings('ignore')
import logging
import os
import sys
import tempfile
import threading
import time

here = os.path.dirname(os.path.abspath(__file__))
sys.path.insert(0, os.path.dirname(here))  # for tests.utils

import experiment.runtime.engine
from tests.utils import generate_controller_for_flowir

logging.disable(logging.CRITICAL)
experiment.runtime.engine.ENGINE_LAUNCH_DELAY_SECONDS = 0.0

FLOWIR = """
components:
- name: simulation
  stage: 0
  command:
    executable: sleep
    arguments: "600"
"""

HOOK = """
import os
def IsStageComplete(stage, directory):
    return os.path.exists(os.path.join(os.path.dirname(os.path.abspath(__file__)), 'converged'))
"""


def main():
    location = tempfile.mkdtemp(prefix='h8demo3')
    controller = generate_controller_for_flowir(
        FLOWIR, location, extra_files={'hooks/__init__.py': '', 'hooks/status.py': HOOK})
    hooks_dir = controller.experiment.instanceDirectory.hooksDir

    # Stall the hook thread once, right after it has taken opt_lock and before it asks for comp_lock
    hook_thread_has_opt_lock = threading.Event()
    original = controller.get_nodes_in_stage
    stalled = []

    def get_nodes_in_stage(stage_index):
        if not stalled and controller.opt_lock._is_owned() and not controller.comp_lock._is_owned():
            stalled.append(threading.current_thread().name)
            if os.environ.get('H8_NO_STALL'):
                # control experiment: same calls, but cleanUp() only starts after the hook thread is done
                ret = original(stage_index)
                threading.Timer(1.0, hook_thread_has_opt_lock.set).start()
                return ret
            hook_thread_has_opt_lock.set()
            time.sleep(2.0)
        return original(stage_index)

    controller.get_nodes_in_stage = get_nodes_in_stage

    outcome = {}

    def run():
        try:
            controller.run()
            outcome['run'] = 'returned'
        except BaseException as e:
            outcome['run'] = 'raised %s' % type(e).__name__

    t_run = threading.Thread(target=run, daemon=True, name='controller.run')
    t_run.start()
    time.sleep(6)

    open(os.path.join(hooks_dir, 'converged'), 'w').close()   # the hook will now answer True
    if not hook_thread_has_opt_lock.wait(30):
        print("could not set up the interleaving (hook thread never reached the closure)")
        os._exit(2)

    def clean_up():
        controller.cleanUp()
        outcome['cleanUp'] = 'returned'

    t_clean = threading.Thread(target=clean_up, daemon=True, name='cleanUp')
    t_clean.start()

    t_clean.join(40)
    t_run.join(5)

    print("hook thread %s: %s" % (stalled, "NOT stalled (control run)" if os.environ.get('H8_NO_STALL')
                                  else "stalled for 2s while holding opt_lock"))
    print("40s later: cleanUp() %s, Controller.run() %s" % (
        outcome.get('cleanUp', 'IS STILL BLOCKED'), outcome.get('run', 'IS STILL BLOCKED')))

    got = controller.comp_lock.acquire(timeout=1)
    print("main thread can take comp_lock: %s" % got)
    if got:
        controller.comp_lock.release()
    got_opt = controller.opt_lock.acquire(timeout=1)
    print("main thread can take opt_lock:  %s" % got_opt)
    if got_opt:
        controller.opt_lock.release()

    bad = t_clean.is_alive() or t_run.is_alive()
    if bad:
        import traceback
        frames = sys._current_frames()
        for th in threading.enumerate():
            if th.name in ('cleanUp', 'controller.run') or th.name in stalled:
                stack = traceback.extract_stack(frames[th.ident])
                where = [f for f in stack if f.filename.endswith('control.py')][-1]
                print("  thread %-28s blocked in control.py:%d %s()   %s" % (
                    th.name, where.lineno, where.name, where.line))
        print("DEFECT: dead-lock. The hook thread holds opt_lock and waits for comp_lock; cleanUp() holds comp_lock "
              "(inside kill_all_components) and waits for opt_lock (disable_optimizer); the stage loop needs "
              "comp_lock too, so neither cleanUp() nor run() ever return.")
    try:
        proc = controller.get_compstate('stage0.simulation').engine.process
        if proc is not None:
            proc.kill()
    except Exception:
        pass
    sys.stdout.flush()
    os._exit(1 if bad else 0)


if __name__ == '__main__':
    main()
