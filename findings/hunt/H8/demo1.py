#!/usr/bin/env python
"""demo1: the completion hook (hooks/status.py:IsStageComplete) ends a stage that still has a PENDING component
-> Controller.run() never returns (C02: "the stage loop terminates with every component in exactly one final state").

Run:  cd /tmp/wt/H8 && PYTHONPATH=/tmp/wt/H8/python /venv/bin/python -W ignore HUNT/demo1.py
"""
import warnings
warnings.filterwarnings('ignore')
import logging
import os
import sys
import tempfile
import threading
import time

here = os.path.dirname(os.path.abspath(__file__))
sys.path.insert(0, os.path.dirname(here))  # for tests.utils

import experiment.model.codes
import experiment.runtime.engine
import experiment.runtime.errors
from tests.utils import generate_controller_for_flowir

logging.disable(logging.CRITICAL)

# no artificial launch delay (same as tests/conftest.py)
experiment.runtime.engine.ENGINE_LAUNCH_DELAY_SECONDS = 0.0

FLOWIR = """
components:
- name: simulation
  stage: 0
  command:
    executable: sleep
    arguments: "600"
- name: postprocess
  stage: 0
  command:
    executable: ls
    arguments: simulation:ref
  references:
  - simulation:ref
"""

# The package ships the documented stage-completion hook; it reports "stage complete" as soon as a file exists
HOOK = """
import os
def IsStageComplete(stage, directory):
    return os.path.exists(os.path.join(os.path.dirname(os.path.abspath(__file__)), 'converged'))
"""

WAIT_FOR_STAGE = 60.0


def main():
    location = tempfile.mkdtemp(prefix='h8demo1')
    controller = generate_controller_for_flowir(
        FLOWIR, location, extra_files={'hooks/__init__.py': '', 'hooks/status.py': HOOK})
    assert controller.completionCheck.__name__ == 'IsStageComplete', "hook was not picked up"

    hooks_dir = controller.experiment.instanceDirectory.hooksDir
    outcome = {}

    def run():
        try:
            controller.run()
            outcome['result'] = 'returned'
        except Exception as e:
            outcome['result'] = 'raised %s' % type(e).__name__

    t = threading.Thread(target=run, daemon=True)
    t.start()

    # let the simulation start, then the hook reports that the stage is complete
    time.sleep(8)
    sim = controller.get_compstate('stage0.simulation')
    post = controller.get_compstate('stage0.postprocess')
    print("before hook fires: simulation=%s (staged:%s)  postprocess=%s (staged:%s)" % (
        sim.state, sim in controller.comp_staged_in, post.state, post in controller.comp_staged_in))
    open(os.path.join(hooks_dir, 'converged'), 'w').close()
    t_hook = time.time()

    t.join(WAIT_FOR_STAGE)
    waited = time.time() - t_hook

    print("after %.0fs: Controller.run() %s" % (waited, outcome.get('result', 'IS STILL RUNNING')))
    print("  simulation : state=%s finishCalled=%s observed-done=%s" % (
        sim.state, sim.finishCalled, 'stage0.simulation' in controller.comp_done))
    print("  postprocess: state=%s finishCalled=%s observed-done=%s staged_in=%s" % (
        post.state, post.finishCalled, 'stage0.postprocess' in controller.comp_done,
        post in controller.comp_staged_in))

    bad = t.is_alive()
    if bad:
        print("DEFECT: the completion hook stopped every component of the stage, both are in a final state, but "
              "Controller.run() is still looping: nobody observes the final state of the component that was still "
              "pending, so it never enters comp_done and the stage never completes.")
        # a later cleanUp() does not help either: it skips components whose finish() was already called
        controller.cleanUp()
        t.join(15)
        print("  after Controller.cleanUp(): run() %s" % ('IS STILL RUNNING' if t.is_alive() else 'ended'))

    # do not leave the sleep behind
    try:
        if sim.engine.process is not None:
            sim.engine.process.kill()
    except Exception:
        pass

    sys.stdout.flush()
    os._exit(1 if bad else 0)


if __name__ == '__main__':
    main()
