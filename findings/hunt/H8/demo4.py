#!/usr/bin/env python
"""demo4: a task is launched again AFTER its component received its final state and the stage has ended (C12/C02).

A component whose exit reason is restartable is in POSTMORTEM; postMortemCheck() -> ComponentState.restart() ->
Engine.restart() is executing the package's restart hook (here the hook needs 8 seconds). Meanwhile the stage is
stopped (here: Controller.cleanUp(), exactly what elaunch.py does when it is interrupted; _stopComponents() after a
sibling failed, or the completion hook, do the same): finish(SHUTDOWN) finds the component in POSTMORTEM, publishes
SHUTDOWN at once and shuts the engine down. The stage loop ends. Then the hook returns, Engine.restart() resets the
exit reason and calls run(): the task is submitted once more for a component that is SHUTDOWN, in a stage that is
over, and nobody will ever kill or observe it.

Run:  cd /tmp/wt/H8 && PYTHONPATH=/tmp/wt/H8/python /venv/bin/python -W ignore HUNT/demo4.py
"""
import warnings
warnings.filterwarnings('ignore')
import logging
import os
import sys
import tempfile
import threading
import time

here = os.path.dirname(os.path.abspath(__file__))
sys.path.insert(0, os.path.dirname(here))  # for tests.utils

import experiment.model.codes
import experiment.runtime.engine
from tests.utils import generate_controller_for_flowir

logging.disable(logging.CRITICAL)
experiment.runtime.engine.ENGINE_LAUNCH_DELAY_SECONDS = 0.0

FLOWIR = """
components:
- name: sim
  stage: 0
  command:
    executable: sh
    arguments: -c "echo launched >> launches.txt; sleep 2; exit 1"
    expandArguments: "none"
  workflowAttributes:
    restartHookOn:
    - KnownIssue
"""

HOOK = """
import time
import experiment.model.codes
def Restart(workingDirectory, restarts, componentName, log, exitReason, exitCode):
    time.sleep(8)     # e.g. archives/copies the restart files of the simulation
    return experiment.model.codes.restartContexts["RestartContextRestartPossible"]
"""


def main():
    location = tempfile.mkdtemp(prefix='h8demo4')
    controller = generate_controller_for_flowir(
        FLOWIR, location, extra_files={'hooks/__init__.py': '', 'hooks/restart.py': HOOK})
    sim = controller.get_compstate('stage0.sim')
    workdir = sim.specification.directory

    def launches():
        try:
            with open(os.path.join(workdir, 'launches.txt')) as f:
                return len(f.readlines())
        except IOError:
            return 0

    outcome = {}

    def run():
        try:
            controller.run()
            outcome['run'] = 'returned'
        except BaseException as e:
            outcome['run'] = 'raised %s' % type(e).__name__

    t = threading.Thread(target=run, daemon=True)
    t.start()

    t0 = time.time()
    while sim.engine.exitReason() is None and time.time() - t0 < 30:
        time.sleep(0.2)
    print("t=%4.1f first task exited with %s; launches=%d; component state=%s" % (
        time.time() - t0, sim.engine.exitReason(), launches(), sim.state))

    time.sleep(3)   # the controller is now inside the restart hook
    print("t=%4.1f Controller.cleanUp() (component state=%s)" % (time.time() - t0, sim.state))
    controller.cleanUp()
    t.join(20)
    state_at_end, launches_at_end = sim.state, launches()
    print("t=%4.1f Controller.run() %s; component state=%s; observed-done=%s; launches=%d" % (
        time.time() - t0, outcome.get('run', 'IS STILL RUNNING'), state_at_end,
        'stage0.sim' in controller.comp_done, launches_at_end))

    time.sleep(14)
    print("t=%4.1f later: component state=%s; launches=%d" % (time.time() - t0, sim.state, launches()))

    bad = (state_at_end == experiment.model.codes.SHUTDOWN_STATE and launches() > launches_at_end)
    if bad:
        print("DEFECT: the task of %s was started %d time(s) after the component had been given its final state "
              "(%s) and after Controller.run() had ended." % (
                  sim.specification.reference, launches() - launches_at_end, state_at_end))
    sys.stdout.flush()
    os._exit(1 if bad else 0)


if __name__ == '__main__':
    main()
