#!/usr/bin/env python
"""demo2 - Controller.run() never returns after killController()/handleError() when the condition component of
a DoWhile has just finished: the next iteration is instantiated AFTER the controller stopped executing, and the
new components are neither submitted nor shut down.

Property C02: "the stage loop terminates with every component of the stage in exactly one final state, whatever
the ordering of notifications and scheduler passes" (focus (b): does run() always return after
kill_all_components()/killController()/handleError()?).

Schedule (single stage, a DoWhile with one component `loop` which is also the condition, 1 extra iteration):
  1. the task of stage0.0#loop exits with Success; postMortemCheck() calls finish(FINISHED)  [finishCalled=True]
  2. BEFORE the resulting finishedCheck(stage0.0#loop) obtains comp_lock, the controller is stopped:
     killController() -> kill_all_components(): tags the placeholders as done, sets stop_executing, skips
     0#loop (finish() was already called on it) - there is nothing else to stop.
  3. finishedCheck(stage0.0#loop) runs: _handle_condition_component_finished() resolves the condition to True
     and instantiates stage0.1#loop without looking at stop_executing.
  4. _schedule() finds stage0.1#loop ready but "if not self.stop_executing: finalize_submit_components(ready)"
     skips it; nothing ever calls finish() on it, it never enters comp_done and the loop of run()
     ("Stage 0 is waiting for ['stage0.1#loop'] to shutdown before it can complete") spins forever.

Step 2 is forced by wrapping Controller.finishedCheck: the wrapper calls killController() right before the
original method when it is invoked for stage0.0#loop (at that point the component already is FINISHED with
finishCalled=True, i.e. this is exactly the state in which a concurrent kill that wins comp_lock leaves things).
"""
from __future__ import print_function

import logging
import os
import sys
import tempfile
import threading
import time

import networkx

import experiment.model.codes
import experiment.model.data
import experiment.model.storage
import experiment.runtime.control
import experiment.runtime.engine
import experiment.runtime.workflow

logging.basicConfig(format='%(levelname)-8s %(threadName)-24s %(name)-28s: %(message)s')
logging.getLogger().setLevel(logging.ERROR)

# Same shortcut as tests/conftest.py: no artificial delay before the first launch
experiment.runtime.engine.ENGINE_LAUNCH_DELAY_SECONDS = 0.0

# This is the DoWhile of tests/test_dowhile.py::test_controller_dowhile_1_loops
FLOWIR_DOWHILE = """
type: DoWhile

inputBindings: {}
loopBindings: {}
condition: "loop/iteration.next:output"

components:
- name: loop
  command:
    executable: echo
    expandArguments: none
    arguments: $(
          if [ "%(loopIteration)s" -lt "%(targetLoops)s" ]; then
            echo "True" > iteration.next &&
            echo "Remaining iteration(s) $((%(targetLoops)s-%(loopIteration)s))" ;
          else
            echo "False" > iteration.next &&
            echo "Reached %(targetLoops)s iterations" ;
          fi)
  variables:
    targetLoops: 1
"""

FLOWIR_MAIN = """
components:
- name: never-loop
  $import: dowhile.yaml
  bindings: {}
"""

WAIT_FOR_RUN = 45.0


class FakeStatus(object):
    def monitorComponent(self, *args, **kwargs):
        pass


def build_controller():
    location = tempfile.mkdtemp(prefix='hunt-demo2-')
    conf_dir = os.path.join(location, 'conf')
    os.makedirs(conf_dir)
    with open(os.path.join(conf_dir, 'dowhile.yaml'), 'w') as f:
        f.write(FLOWIR_DOWHILE)
    with open(os.path.join(conf_dir, 'flowir_package.yaml'), 'w') as f:
        f.write(FLOWIR_MAIN)

    package = experiment.model.storage.ExperimentPackage.packageFromLocation(location)
    instance_dir = experiment.model.storage.ExperimentInstanceDirectory.newInstanceDirectory(
        tempfile.mkdtemp(prefix='hunt-demo2-inst-'), package=package)
    exp = experiment.model.data.Experiment(instance_dir, is_instance=True)
    exp.validateExperiment()

    keep = []
    for name in networkx.topological_sort(exp.graph):
        data = exp.graph.nodes[name]
        stage = exp._stages[data['stageIndex']]
        job = stage.jobWithName(data['componentSpecification'].identification.componentName)
        keep.append(experiment.runtime.workflow.ComponentState(job, exp.experimentGraph, create_engine=True))

    controller = experiment.runtime.control.Controller(exp)
    controller.initialise(exp._stages[0], FakeStatus())
    return controller, keep


def main():
    controller, keep = build_controller()

    original_finished_check = controller.finishedCheck
    killed = []

    def finished_check_after_kill(state, component):
        ref = component.specification.reference
        if ref == 'stage0.0#loop' and not killed:
            killed.append((component.state, component.finishCalled))
            print("finishedCheck(%s) is about to run (state=%s, finishCalled=%s): the kill wins the race" % (
                ref, component.state, component.finishCalled))
            controller.killController("operator asked to stop")
        return original_finished_check(state, component)

    controller.finishedCheck = finished_check_after_kill

    outcome = {}

    def run():
        try:
            controller.run()
            outcome['run'] = 'returned normally'
        except Exception as e:
            outcome['run'] = 'raised %s: %s' % (type(e).__name__, e)

    t = threading.Thread(target=run, daemon=True)
    started = time.time()
    t.start()

    while t.is_alive() and not killed and time.time() - started < 60:
        time.sleep(0.1)

    if not killed:
        print("INCONCLUSIVE: finishedCheck(stage0.0#loop) was never invoked (%s)" % outcome)
        os._exit(0)

    kill_time = time.time()
    t.join(WAIT_FOR_RUN)

    print("stop_executing=%s" % controller.stop_executing)
    for node in sorted(controller.graph.nodes):
        comp = controller.get_compstate(node)
        print("  %-16s state=%-20s finishCalled=%-5s staged_in=%-5s in comp_done=%s" % (
            node, comp.state, comp.finishCalled, comp in controller.comp_staged_in, node in controller.comp_done))

    if t.is_alive():
        pending = [n for n in controller.get_nodes_in_stage(0) if controller.node_is_active(n)]
        print("DEFECT: %.0f seconds after killController() Controller.run() still has not returned; "
              "it waits for %s which nobody will ever submit or shut down" % (time.time() - kill_time, pending))
        sys.stdout.flush()
        os._exit(1)

    print("OK: Controller.run() %s %.1f seconds after killController()" % (
        outcome.get('run'), time.time() - kill_time))
    sys.stdout.flush()
    os._exit(0)


if __name__ == '__main__':
    main()
