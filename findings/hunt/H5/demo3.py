#!/usr/bin/env python
"""demo3 - the migrated-components path: Controller.run() of the stage that receives a migrated component never
returns, and in the intended use (stage ended by the completion hook) the migrated task is killed instead of
carrying on.

Property C02: "the stage loop terminates with every component of the stage in exactly one final state";
focus (c) the migrated-components path.

Workflow (local backend):
   stage0.sim   isMigratable: true      (sleep N)
   stage0.other                          (touch done.txt)
   stage1.sim   isMigrated: true, references stage0.sim:link   -> takes over the engine of stage0.sim
   stage1.post  references stage0.other:ref

Variant "hook"    : hooks/status.py::IsStageComplete() ends stage 0 as soon as `other` is done, stage0.sim is still
                    running (this is what isMigratable is for: finish(SHUTDOWN) leaves its engine alive).
Variant "natural" : no hook; stage0.sim finishes by itself, stage 0 ends, stage 1 adopts the (dead) engine.

In both variants Controller._handleMigration() does `component.engine = source.engine`, but the observables of
ComponentState (built in __init__) are wired to the engine that the constructor created, which never runs.
Nothing the adopted engine does is ever published by stage1.sim: no POSTMORTEM notification, no final state,
no finishedCheck() -> stage1.sim never enters comp_done and run() spins forever.
In the "hook" variant _schedule() additionally applies the "consumer of a SHUTDOWN producer" rule to stage1.sim
(its only producer is the migratable stage0.sim that the hook put in SHUTDOWN) and finish(SHUTDOWN) kills the
task that was supposed to migrate; the `migrated_components` argument of _schedule() is not used at all.
"""
from __future__ import print_function

import logging
import os
import sys
import tempfile
import threading
import time
import uuid

import networkx

import experiment.model.codes
import experiment.model.data
import experiment.model.storage
import experiment.runtime.control
import experiment.runtime.engine
import experiment.runtime.workflow

logging.basicConfig(format='%(levelname)-8s %(threadName)-24s %(name)-28s: %(message)s')
logging.getLogger().setLevel(logging.ERROR)

# Same shortcut as tests/conftest.py: no artificial delay before the first launch
experiment.runtime.engine.ENGINE_LAUNCH_DELAY_SECONDS = 0.0

FLOWIR = """
components:
- name: sim
  stage: 0
  command:
    executable: sleep
    arguments: "%(duration)s"
  workflowAttributes:
    isMigratable: true
- name: other
  stage: 0
  command:
    executable: touch
    arguments: done.txt
- name: sim
  stage: 1
  command:
    executable: sleep
    arguments: "%(duration)s"
  references:
  - stage0.sim:link
  workflowAttributes:
    isMigrated: true
- name: post
  stage: 1
  command:
    executable: ls
    arguments: stage0.other:ref
  references:
  - stage0.other:ref
"""

STATUS_HOOK = """
import os

def IsStageComplete(stage_index, directory):
    # stage 0 is complete as soon as `other` has produced its file
    if stage_index != 0:
        return False
    return os.path.exists(os.path.join(directory, 'other', 'done.txt'))
"""

# How long to wait for run() of stage 1 once every engine is dead (state is re-published every 5 seconds)
HANG_AFTER = 25.0


class FakeStatus(object):
    def monitorComponent(self, *args, **kwargs):
        pass


def build_controller(with_hook, duration):
    location = tempfile.mkdtemp(prefix='hunt-demo3-')
    package_path = os.path.join(location, '%s.package' % uuid.uuid4())
    os.makedirs(os.path.join(package_path, 'conf'))
    with open(os.path.join(package_path, 'conf', 'flowir_package.yaml'), 'w') as f:
        f.write(FLOWIR % {'duration': duration})
    if with_hook:
        os.makedirs(os.path.join(package_path, 'hooks'))
        open(os.path.join(package_path, 'hooks', '__init__.py'), 'w').close()
        with open(os.path.join(package_path, 'hooks', 'status.py'), 'w') as f:
            f.write(STATUS_HOOK)

    os.chdir(os.path.expanduser('~'))
    package = experiment.model.storage.ExperimentPackage.packageFromLocation(package_path)
    exp = experiment.model.data.Experiment.experimentFromPackage(package, location=location)
    exp.validateExperiment()

    keep = []
    for name in networkx.topological_sort(exp.graph):
        data = exp.graph.nodes[name]
        stage = exp._stages[data['stageIndex']]
        job = stage.jobWithName(data['componentSpecification'].identification.componentName)
        keep.append(experiment.runtime.workflow.ComponentState(job, exp.experimentGraph, create_engine=True))

    return exp, experiment.runtime.control.Controller(exp), keep


def variant(name, with_hook, duration):
    print("=== variant %s ===" % name)
    exp, controller, keep = build_controller(with_hook, duration)
    progress = {}

    def go():
        for stage in exp._stages:
            controller.initialise(stage, FakeStatus())
            progress['stage'] = stage.index
            try:
                controller.run()
                progress[stage.index] = 'returned normally'
            except Exception as e:
                progress[stage.index] = 'raised %s' % type(e).__name__
                break
        progress['done'] = True

    t = threading.Thread(target=go, daemon=True)
    t.start()

    migrated = controller.get_compstate('stage1.sim')
    source = controller.get_compstate('stage0.sim')

    # wait for stage 1 to start, and then for the engine that stage1.sim uses to be dead
    deadline = time.time() + duration + 40
    while time.time() < deadline and not progress.get('done'):
        if progress.get('stage') == 1 and migrated.engine is source.engine and not migrated.engine.isAlive():
            break
        time.sleep(0.1)

    t.join(HANG_AFTER)

    print("run() of stage 0: %s" % progress.get(0))
    print("run() of stage 1: %s" % progress.get(1, 'STILL RUNNING'))
    print("stage1.sim uses the engine of %s (exit reason of that engine: %s)" % (
        migrated.engine.job.reference, migrated.engine.exitReason()))
    for node in sorted(controller.graph.nodes):
        comp = controller.get_compstate(node)
        print("  %-13s state=%-19s finishCalled=%-5s in comp_done=%s" % (
            node, comp.state, comp.finishCalled, node in controller.comp_done))

    problems = []
    if t.is_alive():
        problems.append("run() of stage 1 has not returned %.0f s after the engine of stage1.sim died; "
                        "stage1.sim is '%s' and is not in comp_done" % (HANG_AFTER, migrated.state))
    if with_hook and migrated.engine.exitReason() in [experiment.model.codes.exitReasons['Cancelled'],
                                                       experiment.model.codes.exitReasons['Killed']]:
        problems.append("the task that was meant to migrate into stage 1 was killed when stage 1 started "
                        "(exit reason %s)" % migrated.engine.exitReason())

    try:
        controller.cleanUp()
    except Exception:
        pass

    for p in problems:
        print("DEFECT (%s): %s" % (name, p))
    return problems


def main():
    which = sys.argv[1:] or ['hook', 'natural']
    problems = []
    if 'hook' in which:
        problems += variant('hook', True, 40)
    if 'natural' in which:
        problems += variant('natural', False, 6)

    sys.stdout.flush()
    os._exit(1 if problems else 0)


if __name__ == '__main__':
    main()
