#!/usr/bin/env python
"""demo1 - a component receives two final states (SHUTDOWN, then FAILED) when it is stopped while the
controller is waiting for the system to become stable (Controller._unstableSystemRestart).

Property C02: "the stage loop terminates with every component of the stage in exactly one final state".

Schedule
  * stage 0 has two local components: `bad` (ls of a missing directory: exit code 2 -> KnownIssue, which is not
    in restartHookOn) and `long` (sleep 600); stage 1 has `report` which consumes `long`.
  * a FilesystemInconsistencyError has been recorded by the MonitorExceptionTracker during the last 2 minutes
    (this is what a repeating engine's monitor does when a producer directory cannot be listed), so that
    postMortemCheck(bad) -> _restartComponent -> "System is not stable" -> _unstableSystemRestart(bad), which
    parks the component in SUSPENDED for 30..120 seconds.
  * while `bad` is SUSPENDED the operator stops the experiment (Controller.killController, which is also what
    handleError()/cleanUp()/a failure in a future stage/an ordinary failure of another component of the
    stage do: component.finish(SHUTDOWN)).

Expected: `bad` ends in ONE final state, the one that was published to the controller (component_shutdown).
Actual:   finishedCheck() observes `bad` in component_shutdown, Controller.run() returns without reporting a
          failure, and afterwards _unstableSystemRestart overwrites the final state with None and
          postMortemCheck turns the component into FAILED.

The sleeps of control.py (25 s + n * 30 s) are scaled down by 10 so that the script finishes quickly; nothing
else is modified.
"""
from __future__ import print_function

import logging
import os
import sys
import tempfile
import threading
import time
import uuid

import networkx

import experiment.model.codes
import experiment.model.data
import experiment.model.errors
import experiment.model.storage
import experiment.runtime.control
import experiment.runtime.engine
import experiment.runtime.errors
import experiment.runtime.monitor
import experiment.runtime.workflow

logging.basicConfig(format='%(levelname)-8s %(threadName)-24s %(name)-28s: %(message)s')
logging.getLogger().setLevel(logging.ERROR)

# Same shortcut as tests/conftest.py: no artificial delay before the first launch
experiment.runtime.engine.ENGINE_LAUNCH_DELAY_SECONDS = 0.0

SCALE = 10.0


class ScaledTime(object):
    """time module whose sleep() is SCALE times shorter - ONLY installed in experiment.runtime.control"""
    def __getattr__(self, item):
        return getattr(time, item)

    @staticmethod
    def sleep(seconds):
        time.sleep(seconds / SCALE)


experiment.runtime.control.time = ScaledTime()

FLOWIR = """
components:
- name: bad
  command:
    executable: ls
    arguments: /this/directory/does/not/exist
- name: long
  command:
    executable: sleep
    arguments: "600"
- name: report
  stage: 1
  command:
    executable: ls
    arguments: stage0.long:ref
  references:
  - stage0.long:ref
"""


class FakeStatus(object):
    def monitorComponent(self, *args, **kwargs):
        pass


def build_controller(flowir):
    location = tempfile.mkdtemp(prefix='hunt-demo1-')
    package_path = os.path.join(location, '%s.package' % uuid.uuid4())
    os.makedirs(os.path.join(package_path, 'conf'))
    with open(os.path.join(package_path, 'conf', 'flowir_package.yaml'), 'w') as f:
        f.write(flowir)
    os.chdir(os.path.expanduser('~'))
    package = experiment.model.storage.ExperimentPackage.packageFromLocation(package_path)
    exp = experiment.model.data.Experiment.experimentFromPackage(package, location=location)
    exp.validateExperiment()

    keep = []
    for name in networkx.topological_sort(exp.graph):
        data = exp.graph.nodes[name]
        stage = exp._stages[data['stageIndex']]
        job = stage.jobWithName(data['componentSpecification'].identification.componentName)
        keep.append(experiment.runtime.workflow.ComponentState(job, exp.experimentGraph, create_engine=True))

    controller = experiment.runtime.control.Controller(exp)
    controller.initialise(exp._stages[0], FakeStatus())
    return controller, keep


def main():
    controller, keep = build_controller(FLOWIR)
    bad = controller.get_compstate('stage0.bad')
    long_comp = controller.get_compstate('stage0.long')

    # The states in which the controller observed `bad` to be finished
    observed_final = []
    original_finished_check = controller.finishedCheck

    def spy_finished_check(state, component):
        if component is bad:
            observed_final.append(component.state)
        return original_finished_check(state, component)

    controller.finishedCheck = spy_finished_check

    history = []

    def sampler():
        while not stop_sampling.is_set():
            st = bad.state
            if not history or history[-1] != st:
                history.append(st)
            time.sleep(0.01)

    stop_sampling = threading.Event()
    threading.Thread(target=sampler, daemon=True).start()

    outcome = {}

    def run():
        try:
            controller.run()
            outcome['run'] = 'returned normally'
        except Exception as e:
            outcome['run'] = 'raised %s' % type(e).__name__

    t = threading.Thread(target=run, daemon=True)
    t.start()

    # The system becomes unstable once the components are running (before, it would only delay the submission)
    deadline = time.time() + 30
    while time.time() < deadline and not (bad in controller.comp_staged_in and long_comp in controller.comp_staged_in):
        time.sleep(0.05)
    error = experiment.model.errors.FilesystemInconsistencyError(
        "cannot list the directory of a producer (injected)", OSError(5, "Input/output error"))
    assert type(error) in experiment.runtime.errors.systemErrors
    experiment.runtime.monitor.MonitorExceptionTracker.defaultTracker().addException(error)

    # wait for `bad` to be parked in SUSPENDED by _unstableSystemRestart()
    deadline = time.time() + 60
    while time.time() < deadline and bad.state != experiment.model.codes.SUSPENDED_STATE:
        time.sleep(0.02)

    if bad.state != experiment.model.codes.SUSPENDED_STATE:
        print("INCONCLUSIVE: `bad` never became SUSPENDED (history %s)" % history)
        os._exit(0)

    print("`bad` exited with %s and is now %s: stopping the experiment" % (bad.engine.exitReason(), bad.state))
    controller.killController("operator asked to stop")

    t.join(60)
    print("Controller.run(): %s" % outcome.get('run', 'STILL RUNNING after 60 seconds'))
    state_at_verdict = bad.state
    print("state of `bad` when run() returned: %s" % state_at_verdict)

    # _unstableSystemRestart() is still sleeping: give it the time to finish (at most 4 * 30 / SCALE seconds)
    deadline = time.time() + 4 * 30 / SCALE + 10
    while time.time() < deadline and bad.state == state_at_verdict:
        time.sleep(0.05)
    time.sleep(1.0)
    stop_sampling.set()

    final = bad.state
    print("states of `bad` seen by finishedCheck(): %s" % observed_final)
    print("history of bad.state: %s" % ' -> '.join(history))
    print("state of `bad` in the end: %s" % final)

    final_states = [experiment.model.codes.FINISHED_STATE, experiment.model.codes.FAILED_STATE,
                    experiment.model.codes.SHUTDOWN_STATE]
    in_final = [s for s in history if s in final_states]
    problems = []
    if len(in_final) > 1:
        problems.append("`bad` was in %d final states: %s" % (len(in_final), in_final))
    first_final = next((i for i, s in enumerate(history) if s in final_states), None)
    if first_final is not None and any(s not in final_states for s in history[first_final:]):
        problems.append("`bad` left a final state: %s" % ' -> '.join(history[first_final:]))
    if observed_final and final != observed_final[0]:
        problems.append("the controller recorded `bad` as %s but it ends as %s" % (observed_final[0], final))
    if final == experiment.model.codes.FAILED_STATE and outcome.get('run') == 'returned normally':
        problems.append("run() reported no failure for the stage although `bad` is FAILED")

    try:
        controller.cleanUp()
    except Exception:
        pass

    if problems:
        print("DEFECT:")
        for p in problems:
            print("  - %s" % p)
        sys.stdout.flush()
        os._exit(1)

    print("OK: exactly one final state")
    sys.stdout.flush()
    os._exit(0)


if __name__ == '__main__':
    main()
