#!/usr/bin/env python
"""demo4 - a repeating observer whose monitor gives up after six consecutive filesystem errors becomes a zombie:
it never stops after its producers finished, Controller.run() never returns and not even killController() can
put the component in a final state.

Property C13: "[a repeating component] stops on its own after a bounded number of further attempts" once its
producers have finished; property C02: "the stage loop terminates".

Workflow (local backend, one stage): `producer` (sleep 30) and the repeating `observer` (ls producer:ref,
repeatInterval 1).
History: after the first successful execution of `observer`, listing the producer directory fails
(Job.producersHaveOutputSinceDate raises FilesystemInconsistencyError - this is what it does when os.listdir()
of a producer's working directory raises OSError, e.g. an NFS outage) for as long as the producer runs.
monitor.CreateMonitor() tolerates 5 such errors (sleeping 30 s after each) and on the 6th logs "The filesystem is
not reliable at the moment, this monitor will terminate." and RETURNS: the final action
(EngineTaskController(lastAction=True), the only place that sets kernelCompleted) is never executed and
cancelMonitorEvent is not set.
  * RepeatingEngine.exitReason() stays None for ever -> isAlive() is True -> the component is RUNNING for ever,
    although the producer finished long ago (nobody polls any more).
  * kill() only sets cancelMonitorEvent; because self.process is not None and kernelCompleted is False,
    exitReason() still returns None: finish(SHUTDOWN) never completes and run() never returns.

Only the sleeps of monitor.py are shortened (30 s -> 1 s, 5 s -> 1 s); nothing else is modified.
"""
from __future__ import print_function

import logging
import os
import sys
import tempfile
import threading
import time
import uuid

import networkx

import experiment.model.codes
import experiment.model.data
import experiment.model.errors
import experiment.model.storage
import experiment.runtime.control
import experiment.runtime.engine
import experiment.runtime.monitor
import experiment.runtime.workflow

logging.basicConfig(format='%(levelname)-8s %(threadName)-24s %(name)-28s: %(message)s')
logging.getLogger().setLevel(logging.CRITICAL + 1)

# Same shortcut as tests/conftest.py: no artificial delay before the first launch
experiment.runtime.engine.ENGINE_LAUNCH_DELAY_SECONDS = 0.0


class ScaledTime(object):
    """time module with shorter long sleeps - ONLY installed in experiment.runtime.monitor"""
    def __getattr__(self, item):
        return getattr(time, item)

    @staticmethod
    def sleep(seconds):
        if seconds >= 30:
            seconds = seconds / 30.0
        elif seconds >= 5:
            seconds = seconds / 5.0
        time.sleep(seconds)


experiment.runtime.monitor.time = ScaledTime()

PRODUCER_SECONDS = 30

FLOWIR = """
components:
- name: producer
  command:
    executable: sleep
    arguments: "%d"
- name: observer
  command:
    executable: ls
    arguments: producer:ref
  references:
  - producer:ref
  workflowAttributes:
    repeatInterval: 1
""" % PRODUCER_SECONDS


class FakeStatus(object):
    def monitorComponent(self, *args, **kwargs):
        pass


def build_controller():
    location = tempfile.mkdtemp(prefix='hunt-demo4-')
    package_path = os.path.join(location, '%s.package' % uuid.uuid4())
    os.makedirs(os.path.join(package_path, 'conf'))
    with open(os.path.join(package_path, 'conf', 'flowir_package.yaml'), 'w') as f:
        f.write(FLOWIR)
    os.chdir(os.path.expanduser('~'))
    package = experiment.model.storage.ExperimentPackage.packageFromLocation(package_path)
    exp = experiment.model.data.Experiment.experimentFromPackage(package, location=location)
    exp.validateExperiment()

    keep = []
    for name in networkx.topological_sort(exp.graph):
        data = exp.graph.nodes[name]
        stage = exp._stages[data['stageIndex']]
        job = stage.jobWithName(data['componentSpecification'].identification.componentName)
        keep.append(experiment.runtime.workflow.ComponentState(job, exp.experimentGraph, create_engine=True))

    controller = experiment.runtime.control.Controller(exp)
    controller.initialise(exp._stages[0], FakeStatus())
    return controller, keep


def main():
    controller, keep = build_controller()
    observer = controller.get_compstate('stage0.observer')
    producer = controller.get_compstate('stage0.producer')
    engine = observer.engine

    # The filesystem misbehaves after the first execution of the observer and until the producer is done
    job = engine.job
    original = job.producersHaveOutputSinceDate
    errors = []

    def producers_have_output_since_date(date):
        if engine._stateDict['numberTaskLaunches'] >= 1 and producer.engine.isAlive():
            errors.append(time.time())
            raise experiment.model.errors.FilesystemInconsistencyError(
                "cannot list the working directory of stage0.producer (injected)", OSError(5, "Input/output error"))
        return original(date)

    job.producersHaveOutputSinceDate = producers_have_output_since_date

    outcome = {}

    def run():
        try:
            controller.run()
            outcome['run'] = 'returned normally'
        except Exception as e:
            outcome['run'] = 'raised %s' % type(e).__name__

    t = threading.Thread(target=run, daemon=True)
    started = time.time()
    t.start()

    # wait for the producer to finish and then 30 more seconds: an observer must notice that within a few polls
    t.join(PRODUCER_SECONDS + 30)
    monitors = [th.name for th in threading.enumerate() if 'EngineCore' in th.name]

    print("filesystem errors seen by the observer's monitor: %d" % len(errors))
    print("monitor thread(s) of the observer still alive: %s" % monitors)
    print("%.0f s after launch: producer is %s (in comp_done=%s), observer is %s, executions of the observer: %d" % (
        time.time() - started, producer.state, 'stage0.producer' in controller.comp_done, observer.state,
        engine._stateDict['numberTaskLaunches']))
    print("Controller.run(): %s" % outcome.get('run', 'STILL RUNNING'))

    problems = []
    if t.is_alive() and producer.state == experiment.model.codes.FINISHED_STATE and not monitors:
        problems.append("the producer finished %.0f s ago but the observer is still '%s': its monitor thread is "
                        "gone, it will never execute again nor stop" % (
                            time.time() - started - PRODUCER_SECONDS, observer.state))

    if t.is_alive():
        controller.killController("operator asked to stop")
        t.join(20)
        print("20 s after killController(): observer is %s (finishCalled=%s), engine.isAlive()=%s, "
              "cancelMonitorEvent=%s, kernelCompleted=%s, run() %s" % (
                  observer.state, observer.finishCalled, engine.isAlive(), engine.cancelMonitorEvent.is_set(),
                  engine.kernelCompleted, 'STILL RUNNING' if t.is_alive() else outcome.get('run')))
        if t.is_alive():
            problems.append("killController() cannot stop the observer either: Controller.run() never returns")

    for p in problems:
        print("DEFECT: %s" % p)
    sys.stdout.flush()
    os._exit(1 if problems else 0)


if __name__ == '__main__':
    main()
