#!/usr/bin/env python
"""demo4 - (outside C07/C14, found while reading the key-output listing) the `description` and `type` that a package
declares for a key-output never reach output/output.txt and output/output.json: OutputAgent.parse_key_outputs() looks
the two fields up in the whole `output` section (keyed by key-output name) instead of the entry of the key-output.
A package that happens to have a key-output called `description` gets that whole entry as the description of EVERY
key-output.

Run:  cd /tmp/wt/H10 && PYTHONPATH=/tmp/wt/H10/python /venv/bin/python HUNT/demo4.py
Exits 1 when the defect is present.
"""
import json
import logging
import os
import shutil
import sys
import tempfile
import warnings

warnings.simplefilter('ignore')
logging.basicConfig(level=logging.CRITICAL)

import experiment.model.data
import experiment.model.storage
import experiment.runtime.output

FLOWIR = """
output:
  energies:
    data-in: stage0.simulate/energies.csv:copy
    description: total energy per frame
    type: csv
components:
- name: simulate
  command:
    executable: echo
"""


def main():
    tmp = tempfile.mkdtemp(prefix='h10-demo4-')
    os.chdir(tmp)
    try:
        package = os.path.join(tmp, 'exp.package')
        os.makedirs(os.path.join(package, 'conf'))
        with open(os.path.join(package, 'conf', 'flowir_package.yaml'), 'w') as f:
            f.write(FLOWIR)
        pkg = experiment.model.storage.ExperimentPackage.packageFromLocation(package)
        exp = experiment.model.data.Experiment.experimentFromPackage(pkg, location=tmp)
        declared = exp.configuration.get_key_outputs()['energies']

        with open(os.path.join(exp.instanceDirectory.location, 'stages', 'stage0', 'simulate', 'energies.csv'), 'w') as f:
            f.write('frame;energy\n')

        agent = experiment.runtime.output.OutputAgent(exp)
        agent.process_stage(0)
        with open(os.path.join(exp.instanceDirectory.location, 'output', 'output.json')) as f:
            listed = json.load(f)['energies']
    finally:
        os.chdir('/')
        shutil.rmtree(tmp, ignore_errors=True)

    print("declared in the package : description=%r type=%r" % (declared.get('description'), declared.get('type')))
    print("listed in output.json   : description=%r type=%r" % (listed.get('description'), listed.get('type')))

    if listed.get('description') != declared.get('description') or listed.get('type') != declared.get('type'):
        print("\nDEFECT: the key-output listing drops the description and the type of the key-output")
        return 1
    print("\nOK")
    return 0


if __name__ == '__main__':
    sys.exit(main())
