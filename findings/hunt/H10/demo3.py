#!/usr/bin/env python
"""demo3 - C14 (reading a state file back returns exactly the values last written): output/status.txt does not give
back the values that Status wrote. Numbers come back as strings, None as the string 'None' and time stamps in another
format, so

  a) the `status` section of the experiment document (generate_experiment_document_description(), what the datastore
     receives) has a different created-on/updated-on format in a restarted run than in the original run, and it mixes
     two formats inside one document after the first update() of the restarted run
  b) StatusMonitor.CheckStatus of a restarted run raises TypeError on every cycle in which the status-report command
     of the stage fails ("In this case the status file is not updated" is the documented behaviour, not an exception).

Run:  cd /tmp/wt/H10 && PYTHONPATH=/tmp/wt/H10/python /venv/bin/python HUNT/demo3.py
Exits 1 when the defect is present.
"""
import logging
import os
import shutil
import sys
import tempfile
import threading
import warnings

warnings.simplefilter('ignore')
logging.basicConfig(level=logging.CRITICAL)

import experiment.model.codes
import experiment.model.data
import experiment.model.storage
import experiment.runtime.monitor
import experiment.runtime.output

FLOWIR = """
status-report:
  0:
    executable: "false"
    stage-weight: 1.0
components:
- name: hello
  command:
    executable: echo
    arguments: hello
"""


class StubController:
    """The part of experiment.runtime.control.Controller that StatusMonitor.CheckStatus talks to"""
    def __init__(self, exp):
        self.exp = exp
        self.comp_lock = threading.RLock()

    def stage(self):
        return self.exp._stages[0]

    def stageState(self, stage=None):
        return experiment.model.codes.RUNNING_STATE

    def get_stages_in_transit(self):
        return [0]

    def get_stages_finished(self):
        return []

    def get_stage_status(self, index):
        return 0.0

    def generate_status_report_for_nodes(self, components=None, filter_done=False):
        return '<report>'


def main():
    tmp = tempfile.mkdtemp(prefix='h10-demo3-')
    os.chdir(tmp)
    problems = []
    try:
        package = os.path.join(tmp, 'exp.package')
        os.makedirs(os.path.join(package, 'conf'))
        with open(os.path.join(package, 'conf', 'flowir_package.yaml'), 'w') as f:
            f.write(FLOWIR)

        pkg = experiment.model.storage.ExperimentPackage.packageFromLocation(package)
        exp = experiment.model.data.Experiment.experimentFromPackage(pkg, location=tmp)

        # --- the original run writes its progress
        status = exp.statusFile
        status.setStageProgress(0.5)
        status.setTotalProgress(0.25)
        status.setCost(3)
        assert status.update() is True
        written = {
            'stageProgress()': status.stageProgress(), 'totalProgress()': status.totalProgress(),
            'cost()': status.cost(), 'currentStage()': status.currentStage(), 'created()': status.created(),
        }
        doc_written = exp.generate_experiment_document_description(None)['status']

        # --- a restart (elaunch.py --restart, einspect.py, ...) reads the file back
        exp2 = experiment.model.data.Experiment.experimentFromInstance(exp.instanceDirectory.location)
        status2 = exp2.statusFile
        read = {
            'stageProgress()': status2.stageProgress(), 'totalProgress()': status2.totalProgress(),
            'cost()': status2.cost(), 'currentStage()': status2.currentStage(), 'created()': status2.created(),
        }
        doc_read = exp2.generate_experiment_document_description(None)['status']

        print("--- values written by Status.update() vs values returned by Status.statusFromFile()")
        for key in written:
            same = written[key] == read[key] and type(written[key]) == type(read[key])
            print("    %-18s wrote %-45r read %-32r %s" % (key, written[key], read[key], '' if same else '<-- DIFFERS'))
            if not same:
                problems.append(key)

        print("--- `status` of the experiment document, original run vs restarted run")
        for key in ('created-on', 'updated-on', 'current-stage'):
            same = doc_written[key] == doc_read[key]
            print("    %-18s %-32r vs %-32r %s" % (key, doc_written[key], doc_read[key], '' if same else '<-- DIFFERS'))
            if not same:
                problems.append('document.%s' % key)

        status2.update()
        doc_after = exp2.generate_experiment_document_description(None)['status']
        print("    after one update() of the restarted run: created-on=%r updated-on=%r (two formats in one document)" % (
            doc_after['created-on'], doc_after['updated-on']))

        # --- the status monitor of the restarted run, the status-report command of stage 0 fails (exit code 1)
        logging.disable(logging.CRITICAL)  # the monitor logs the traceback of every failure as CRITICAL
        tracker = experiment.runtime.monitor.MonitorExceptionTracker.defaultTracker()
        before = len(tracker.exceptions)
        monitor = experiment.runtime.output.StatusMonitor(exp2, report_components=False)
        monitor.repeatInterval = 0.2
        monitor.run(StubController(exp2))
        monitor.kill()
        monitor.join()
        raised = [e['exception'] for e in tracker.exceptions[before:]]
        print("--- StatusMonitor.CheckStatus on the restarted run while the status-report command fails")
        for e in raised:
            underlying = getattr(e, 'underlyingError', None)
            print("    raised: %s(%s)" % (type(underlying).__name__, underlying))
        if raised:
            problems.append('CheckStatus raised %d exception(s)' % len(raised))
    finally:
        os.chdir('/')
        shutil.rmtree(tmp, ignore_errors=True)

    if problems:
        print("\nDEFECT: status.txt is not read back faithfully: %s" % problems)
        return 1

    print("\nOK: status.txt round-trips")
    return 0


if __name__ == '__main__':
    sys.exit(main())
