#!/usr/bin/env python
"""demo1 - C07: an instance reloaded from its own files is NOT the same experiment: its name, the
FLOW_EXPERIMENT_NAME variable in the environment of every component and the `name` of the experiment document
change between the process that created the instance and any process that loads it again (restart, einspect, ...).

Run:  cd /tmp/wt/H10 && PYTHONPATH=/tmp/wt/H10/python /venv/bin/python HUNT/demo1.py
Exits 1 when the defect is present.
"""
import logging
import os
import shutil
import sys
import tempfile
import warnings

warnings.simplefilter('ignore')
logging.basicConfig(level=logging.CRITICAL)

import experiment.model.data
import experiment.model.storage

FLOWIR = """
components:
- name: hello
  command:
    executable: echo
    arguments: $FLOW_EXPERIMENT_NAME
"""


def describe(exp):
    spec = exp.experimentGraph.graph.nodes['stage0.hello']['componentSpecification']
    env = spec.environment or {}
    return {
        'Experiment.name': exp.name,
        'env[FLOW_EXPERIMENT_NAME] of stage0.hello': env.get('FLOW_EXPERIMENT_NAME', '<not set>'),
        'experiment document name': exp.generate_experiment_document_description(None)['name'],
    }


def scenario(tmp, label, package_dir_name, location_given, stamp, instance_name=None):
    package = os.path.join(tmp, package_dir_name)
    if not os.path.isdir(package):
        os.makedirs(os.path.join(package, 'conf'))
        with open(os.path.join(package, 'conf', 'flowir_package.yaml'), 'w') as f:
            f.write(FLOWIR)

    pkg = experiment.model.storage.ExperimentPackage.packageFromLocation(location_given(package))
    created = experiment.model.data.Experiment.experimentFromPackage(
        pkg, location=tmp, timestamp=stamp, instance_name=instance_name)
    first = describe(created)
    instance = created.instanceDirectory.location

    # what `elaunch.py --restart`, einspect.py, etc do
    reloaded = experiment.model.data.Experiment.experimentFromInstance(instance)
    second = describe(reloaded)

    print("--- %s" % label)
    print("    package given as : %s" % location_given(package))
    print("    instance         : %s" % instance)
    bad = False
    for key in first:
        same = first[key] == second[key]
        bad = bad or not same
        print("    %-45s created=%-12r reloaded=%-12r %s" % (key, first[key], second[key], '' if same else '<-- DIFFERS'))
    return bad


def main():
    tmp = tempfile.mkdtemp(prefix='h10-demo1-')
    os.chdir(tmp)
    try:
        failures = [
            # a dash in the name of the package: "my-exp" becomes "myexp"
            scenario(tmp, 'package name with a dash', 'my-exp.package', lambda p: p, True),
            # trailing slash (what shell completion produces): the name is '' in the process that creates the instance
            # and FLOW_EXPERIMENT_NAME is not even defined, then it is "myexp" after a reload
            scenario(tmp, 'package path with a trailing slash', 'my-exp.package', lambda p: p + os.sep, True),
            # no timestamp: the last three dash separated words are taken for a timestamp and dropped
            scenario(tmp, 'instance without timestamp', 'salt-curve-v2-final.package', lambda p: p, False),
        ]
    finally:
        os.chdir('/')
        shutil.rmtree(tmp, ignore_errors=True)

    if any(failures):
        print("\nDEFECT: the experiment loaded from the instance directory has another name/environment than the "
              "experiment that wrote it (%d of %d scenarios)" % (sum(failures), len(failures)))
        return 1
    print("\nOK: name and environment survive a reload")
    return 0


if __name__ == '__main__':
    sys.exit(main())
