#!/usr/bin/env python
"""demo2 - C07 (dataflow of the instance == dataflow of the package): a component whose name is the name of a
directory that the runtime creates in EVERY instance (`output`, `stages`; also `python` when the runtime links a
virtual environment) loses the edges of its same-stage consumers as soon as the package is instantiated.

The package validates, the graph of the package has the edge producer -> consumer, the graph of the experiment that is
actually executed (and of every later reload of the instance) does not: the consumer is free to start before its
producer, while its command line still refers to the working directory of the producer.

Run:  cd /tmp/wt/H10 && PYTHONPATH=/tmp/wt/H10/python /venv/bin/python HUNT/demo2.py
Exits 1 when the defect is present.
"""
import logging
import os
import shutil
import sys
import tempfile
import warnings

warnings.simplefilter('ignore')
logging.basicConfig(level=logging.CRITICAL)

import experiment.model.data
import experiment.model.graph
import experiment.model.storage

FLOWIR = """
components:
- name: %(producer)s
  command:
    executable: echo
    arguments: hello
- name: consumer
  command:
    executable: cat
    arguments: %(producer)s/out.stdout:ref
  references:
  - %(producer)s/out.stdout:ref
"""


def edges_of(graph):
    return sorted(graph.graph.edges)


def scenario(tmp, producer):
    package = os.path.join(tmp, 'pkg-%s.package' % producer)
    os.makedirs(os.path.join(package, 'conf'))
    with open(os.path.join(package, 'conf', 'flowir_package.yaml'), 'w') as f:
        f.write(FLOWIR % {'producer': producer})

    # 1. the package: loads, validates, and has the edge
    pkg = experiment.model.storage.ExperimentPackage.packageFromLocation(package, validate=True)
    package_graph = experiment.model.graph.WorkflowGraph.graphFromPackage(pkg, validate=True)
    package_edges = edges_of(package_graph)

    # 2. the experiment that elaunch.py runs
    exp = experiment.model.data.Experiment.experimentFromPackage(pkg, location=tmp)
    exp.validateExperiment(checkExecutables=False)
    instance_edges = edges_of(exp.experimentGraph)
    consumer = exp.experimentGraph.graph.nodes['stage0.consumer']['componentSpecification']

    # 3. the instance loaded again from conf/flowir_instance.yaml
    reloaded = experiment.model.data.Experiment.experimentFromInstance(exp.instanceDirectory.location)
    reloaded_edges = edges_of(reloaded.experimentGraph)

    print("--- producer component is called %r" % producer)
    print("    edges of the package graph  : %s" % package_edges)
    print("    edges of the instance graph : %s" % instance_edges)
    print("    edges after a reload        : %s" % reloaded_edges)
    print("    command line of consumer    : %s" % consumer.command.commandLine)
    print("    references of consumer      : %s" % [r.absoluteReference for r in consumer.dataReferences])

    return package_edges != instance_edges or package_edges != reloaded_edges


def main():
    tmp = tempfile.mkdtemp(prefix='h10-demo2-')
    os.chdir(tmp)
    try:
        control = scenario(tmp, 'producer')
        bad = [scenario(tmp, name) for name in ('output', 'stages')]
    finally:
        os.chdir('/')
        shutil.rmtree(tmp, ignore_errors=True)

    if control:
        print("\nUNEXPECTED: the control scenario differs as well")
        return 2

    if any(bad):
        print("\nDEFECT: the package validates and its graph orders consumer after its producer, the instantiated "
              "experiment silently drops that dependency (the consumer may run before/without its producer)")
        return 1

    print("\nOK: same dataflow in package and instance")
    return 0


if __name__ == '__main__':
    sys.exit(main())
