#!/usr/bin/env python
"""demo6 - a launch that fails in Setup() replaces the instance's status.txt by one with `stages=[]`;
a later, successful --restart can then never report progress.

History:
  1. elaunch.py pkg.package where the component's executable does not exist yet. Experiment.__init__ creates the
     instance and writes output/status.txt with stages=['stage0'], created-on=<now>. Setup() returns an
     ExperimentInvalidConfigurationError (checkExecutable). The main block stores the error description in
     compExperiment.statusFile and updates it (lines 1649-1659) and THEN calls report_error(instance_dir, ...)
     (line 1691), which builds a brand new   Status(path, data={}, stages=[])   and writes it over the same file:
     stages=[] and created-on=N/A replace the values the experiment had written.
  2. the user installs the executable and restarts:  elaunch.py --restart 0 <instance>
     Experiment.__init__ loads the file (Status.statusFromFile): stages == []. Every tick of the StatusMonitor now
     dies in Status.setCurrentStage -> ValueError("Unknown stage given stage0 ([])"), so nothing the monitor
     computes ever reaches the file. The run SUCCEEDS, yet the final status.txt says
         current-stage=None, stage-progress=0, total-progress=0, stages=[], created-on=N/A
     next to exit-status=Success / experiment-state=finished.
Property C14 (the status file does not return the values last written by the experiment: the list of stages and the
creation date are destroyed by the second writer; focus item (a): what is written to status.txt when Setup fails).
Exits non-zero when the defect is present.
"""
import os
import stat
import subprocess
import sys
import tempfile

HERE = os.path.dirname(os.path.abspath(__file__))
ROOT = os.path.dirname(HERE)
ELAUNCH = os.path.join(ROOT, 'scripts', 'elaunch.py')

PACKAGE = """
components:
- name: first
  stage: 0
  command:
    executable: %(tool)s
    arguments: made.txt
"""

COMMON = ['-f', 'no', '-l', '30', '--haltFile', '/nonexistent', '--killFile', '/nonexistent',
          '--flowConfigPath', '/nonexistent']


def elaunch(cwd, *args):
    e = dict(os.environ)
    e['PYTHONPATH'] = os.path.join(ROOT, 'python')
    e['PYTHONWARNINGS'] = 'ignore'
    proc = subprocess.run([sys.executable, ELAUNCH] + COMMON + list(args), cwd=cwd, env=e, stdout=subprocess.PIPE,
                          stderr=subprocess.STDOUT, timeout=100, universal_newlines=True)
    return proc.returncode, proc.stdout


def read_status(instance):
    ret = {}
    with open(os.path.join(instance, 'output', 'status.txt')) as f:
        for line in f:
            if '=' in line:
                k, v = line.rstrip('\n').split('=', 1)
                ret[k] = v
    return ret


def brief(st):
    keys = ['stages', 'created-on', 'current-stage', 'stage-progress', 'total-progress', 'experiment-state',
            'exit-status']
    return ', '.join('%s=%s' % (k, st.get(k)) for k in keys)


def main():
    work = tempfile.mkdtemp(prefix='demo6-')
    tool = os.path.join(work, 'mytool')
    os.makedirs(os.path.join(work, 'pkg.package', 'conf'))
    with open(os.path.join(work, 'pkg.package', 'conf', 'flowir_package.yaml'), 'w') as f:
        f.write(PACKAGE % {'tool': tool})
    instance = os.path.join(work, 'pkg.instance')

    rc1, out1 = elaunch(work, '--nostamp', 'pkg.package')
    st1 = read_status(instance)
    print("1. launch, executable missing : rc=%s  %s" % (rc1, brief(st1)))

    with open(tool, 'w') as f:
        f.write('#!/bin/sh\ntouch "$1"\n')
    os.chmod(tool, os.stat(tool).st_mode | stat.S_IXUSR)

    rc2, out2 = elaunch(work, '--restart', '0', instance)
    st2 = read_status(instance)
    ran = os.path.exists(os.path.join(instance, 'stages', 'stage0', 'first', 'made.txt'))
    print("2. --restart 0, executable present: rc=%s component ran=%s  %s" % (rc2, ran, brief(st2)))
    n = out2.count('Unknown stage given stage0')
    print("   StatusMonitor ticks that died with \"Unknown stage given stage0 ([])\": %d" % n)

    problems = []
    if st1.get('stages') == '[]':
        problems.append("the failed launch left status.txt with stages=[] and created-on=%s (the experiment had "
                        "written stages=['stage0'] and a date a moment earlier)" % st1.get('created-on'))
    if ran and rc2 == 0 and (st2.get('total-progress') in ('0', '0.0') or st2.get('current-stage') == 'None'):
        problems.append("the restarted run succeeded but its final status.txt says current-stage=%s "
                        "total-progress=%s stages=%s" % (st2.get('current-stage'), st2.get('total-progress'),
                                                         st2.get('stages')))
    if problems:
        print("DEFECT:")
        for p in problems:
            print("  - " + p)
        return 1
    print("OK")
    return 0


if __name__ == '__main__':
    sys.exit(main())
