#!/usr/bin/env python
"""demo1 - elaunch.py --restart N (N >= 1) dies inside its own `finally:` block.

History:
  1. launch a 2-stage package; stage1 fails (its component runs `test -e <marker>`, the marker is absent)
     -> status.txt: exit-status=Failed, experiment-state=finished, error-description=..., completed-on=T1
  2. create the marker and restart from the failed stage:  elaunch.py --restart 1 <instance>
     Stage 1 now runs and SUCCEEDS (the controller reports it finished, Run() returns, exit-status is set to
     'Success' in memory) but the clean-up code of elaunch.py evaluates Controller.workflowIsComplete, which touches
     ComponentState.combinedStateUpdates of the components of the skipped stage 0. Those were built with
     create_engine=False (generate_components) so `self.engine` is None -> AttributeError inside `finally:`.
     Everything after that line is skipped: status DB shutdown, the final status.txt update, consolidate().

Observed afterwards (property C14 - "reading a file back returns the values last written" / the state files describe
the run): the process exits with 1 although the restarted run succeeded, and output/status.txt forever says
experiment-state=running, exit-status=Failed (stale, from the first run), completed-on=T1 (stale, earlier than
updated-on).

Exits non-zero when the defect is present.
"""
import os
import subprocess
import sys
import tempfile

HERE = os.path.dirname(os.path.abspath(__file__))
ROOT = os.path.dirname(HERE)
ELAUNCH = os.path.join(ROOT, 'scripts', 'elaunch.py')

PACKAGE = """
components:
- name: first
  stage: 0
  command:
    executable: touch
    arguments: made.txt
- name: second
  stage: 1
  references:
  - stage0.first/made.txt:ref
  command:
    executable: test
    arguments: -e stage0.first/made.txt:ref -a -e %(marker)s
"""


def elaunch(cwd, *args):
    env = dict(os.environ)
    env['PYTHONPATH'] = os.path.join(ROOT, 'python')
    env['PYTHONWARNINGS'] = 'ignore'
    cmd = [sys.executable, ELAUNCH, '-f', 'no', '-l', '30', '--haltFile', '/nonexistent', '--killFile',
           '/nonexistent', '--flowConfigPath', '/nonexistent'] + list(args)
    proc = subprocess.run(cmd, cwd=cwd, env=env, stdout=subprocess.PIPE, stderr=subprocess.STDOUT, timeout=100,
                          universal_newlines=True)
    return proc.returncode, proc.stdout


def read_status(instance):
    ret = {}
    with open(os.path.join(instance, 'output', 'status.txt')) as f:
        for line in f:
            if '=' in line:
                k, v = line.rstrip('\n').split('=', 1)
                ret[k] = v
    return ret


def main():
    work = tempfile.mkdtemp(prefix='demo1-')
    marker = os.path.join(work, 'marker')
    os.makedirs(os.path.join(work, 'pkg.package', 'conf'))
    with open(os.path.join(work, 'pkg.package', 'conf', 'flowir_package.yaml'), 'w') as f:
        f.write(PACKAGE % {'marker': marker})

    rc1, out1 = elaunch(work, '--nostamp', 'pkg.package')
    instance = os.path.join(work, 'pkg.instance')
    st1 = read_status(instance)
    print("run 1 (stage1 fails on purpose): rc=%s exit-status=%s experiment-state=%s completed-on=%s" % (
        rc1, st1.get('exit-status'), st1.get('experiment-state'), st1.get('completed-on')))
    if rc1 == 0 or st1.get('exit-status') != 'Failed':
        print("SETUP PROBLEM: the first run was expected to fail in stage 1")
        print(out1[-3000:])
        return 2

    open(marker, 'w').close()
    rc2, out2 = elaunch(work, '--restart', '1', instance)
    st2 = read_status(instance)
    print("run 2 (--restart 1, marker present): rc=%s" % rc2)
    for k in sorted(st2):
        print("    %s=%s" % (k, st2[k]))

    stage_ok = 'stage-state' in st2 and st2['stage-state'] == 'finished'
    crashed = "has no attribute 'stateUpdates'" in out2
    problems = []
    if crashed:
        problems.append("elaunch.py raised AttributeError inside its finally: block "
                        "(Controller.workflowIsComplete -> ComponentState.combinedStateUpdates, engine is None)")
        tail = [l for l in out2.splitlines() if l.strip()][-8:]
        print("    ---- tail of the restart log ----")
        for l in tail:
            print("    " + l[:200])
    if rc2 != 0 and stage_ok:
        problems.append("restart exited with %s although stage 1 finished successfully" % rc2)
    if st2.get('experiment-state') != 'finished':
        problems.append("status.txt left with experiment-state=%s after the process is gone" %
                        st2.get('experiment-state'))
    if st2.get('exit-status') != 'Success' and stage_ok:
        problems.append("status.txt keeps the stale exit-status=%s of the previous run (stage 1 succeeded this time)" %
                        st2.get('exit-status'))
    if st2.get('completed-on') == st1.get('completed-on'):
        problems.append("completed-on is still the completion time of the previous run (%s) while updated-on=%s" % (
            st2.get('completed-on'), st2.get('updated-on')))

    if problems:
        print("DEFECT:")
        for p in problems:
            print("  - " + p)
        return 1
    print("OK: restart finalised the status file")
    return 0


if __name__ == '__main__':
    sys.exit(main())
