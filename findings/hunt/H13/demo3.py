#!/usr/bin/env python
"""demo3 - a second SIGINT/SIGTERM/SIGUSR2 during clean-up aborts the `finally:` block of elaunch.py.

elaunch.py installs   signal_handler -> raise KeyboardInterrupt   for SIGINT, SIGTERM and SIGUSR2 and never masks or
replaces it. The first signal is handled as designed: `except KeyboardInterrupt:` sets exit-status=Stopped,
error-description="Killed by user signal" IN MEMORY and calls sys.exit(1), which enters the `finally:` block. That
block is long (stops the monitors, kills the components, *waits* for every component observable to complete, waits
up to 10 minutes for the status database, joins the StatusMonitor) and only at its very end writes the final
status.txt and consolidates the instance directory.

A second signal that arrives anywhere in that block (an impatient second Ctrl-C, `kill` repeated, a batch system that
sends SIGUSR2 and later SIGTERM, Kubernetes sending SIGTERM to a launcher that is already stopping) raises
KeyboardInterrupt *inside* the finally block: the rest of the block is skipped and the interpreter exits.

Control run : one SIGINT         -> status.txt: experiment-state=finished, exit-status=Stopped, completed-on set.
Faulty run  : SIGINT, then SIGINT as soon as the clean-up has begun -> process gone, status.txt still says experiment-state=running (or whatever the
              monitor wrote last), completed-on=N/A, no "Killed by user signal": nothing distinguishes the dead run
              from a live one (property C14: the state that was set last is never persisted; focus item (a)).
Exits non-zero when the defect is present.
"""
import os
import signal
import subprocess
import sys
import tempfile
import time

HERE = os.path.dirname(os.path.abspath(__file__))
ROOT = os.path.dirname(HERE)
ELAUNCH = os.path.join(ROOT, 'scripts', 'elaunch.py')

PACKAGE = """
components:
- name: sleeper
  stage: 0
  command:
    executable: sleep
    arguments: "%(duration)s"
"""

# a duration nobody else uses, so that the demo can remove the task processes it leaves behind
DURATION = "300.%05d" % (os.getpid() % 100000)


def reap_orphans():
    """The local backend kills the shell of a task, not the task: `sleep` survives elaunch (a separate matter)."""
    for pid in [p for p in os.listdir('/proc') if p.isdigit()]:
        try:
            with open('/proc/%s/cmdline' % pid, 'rb') as f:
                args = f.read().split(b'\0')
        except (IOError, OSError):
            continue
        if DURATION.encode() in args and any(a.endswith(b'sleep') for a in args[:1]):
            try:
                os.kill(int(pid), signal.SIGKILL)
            except OSError:
                pass


def read_status(instance):
    ret = {}
    try:
        with open(os.path.join(instance, 'output', 'status.txt')) as f:
            for line in f:
                if '=' in line:
                    k, v = line.rstrip('\n').split('=', 1)
                    ret[k] = v
    except IOError as e:
        ret['<error>'] = str(e)
    return ret


def run(work, name, first_after, second):
    """Sends SIGINT `first_after` seconds after the task started to run. If `second` is set, sends another SIGINT as
    soon as the log shows that elaunch.py is inside its finally: block ("Clean-up - Calling controller cleanup").
    The block then waits for the ComponentState observables, which poll every 5 s (workflow.py:224), i.e. the wait
    lasts anything between 0 and 5 s depending on when the first signal came - hence the different `first_after`."""
    env = dict(os.environ)
    env['PYTHONPATH'] = os.path.join(ROOT, 'python')
    env['PYTHONWARNINGS'] = 'ignore'
    log_path = os.path.join(work, name + '.log')
    cmd = [sys.executable, ELAUNCH, '-f', 'no', '-l', '20', '--haltFile', '/nonexistent', '--killFile',
           '/nonexistent', '--flowConfigPath', '/nonexistent', '--nostamp', '--instanceName', name, 'pkg.package']
    instance = os.path.join(work, name + '.instance')
    with open(log_path, 'w') as log:
        proc = subprocess.Popen(cmd, cwd=work, env=env, stdout=log, stderr=subprocess.STDOUT)
        # wait until the status monitor reports the experiment as running
        deadline = time.time() + 40
        while time.time() < deadline and proc.poll() is None:
            if read_status(instance).get('experiment-state') == 'running':
                break
            time.sleep(0.2)
        time.sleep(first_after)
        proc.send_signal(signal.SIGINT)
        if second:
            deadline = time.time() + 20
            while time.time() < deadline and proc.poll() is None:
                with open(log_path) as f:
                    if 'Clean-up - Calling controller cleanup' in f.read():
                        break
                time.sleep(0.01)
            time.sleep(0.05)
            if proc.poll() is None:
                proc.send_signal(signal.SIGINT)
        try:
            proc.wait(60)
        except subprocess.TimeoutExpired:
            proc.kill()
            proc.wait()
            print("%s: elaunch had to be SIGKILLed" % name)
    return proc.returncode, read_status(instance), open(log_path).read()


def show(name, rc, st):
    print("%s: rc=%s  experiment-state=%s  exit-status=%s  completed-on=%s  error-description=%r" % (
        name, rc, st.get('experiment-state'), st.get('exit-status'), st.get('completed-on'),
        st.get('error-description')))


def main():
    work = tempfile.mkdtemp(prefix='demo3-')
    os.makedirs(os.path.join(work, 'pkg.package', 'conf'))
    with open(os.path.join(work, 'pkg.package', 'conf', 'flowir_package.yaml'), 'w') as f:
        f.write(PACKAGE % {'duration': DURATION})

    rc_a, st_a, out_a = run(work, 'once', 2.0, False)
    show("one SIGINT ", rc_a, st_a)
    for attempt, first_after in enumerate([2.0, 3.3, 4.6, 0.7]):
        rc_b, st_b, out_b = run(work, 'twice%d' % attempt, first_after, True)
        show("two SIGINTs (attempt %d)" % (attempt + 1), rc_b, st_b)
        if 'Clean-up - Clean-up complete' not in out_b:
            break

    control_ok = st_a.get('experiment-state') == 'finished' and st_a.get('exit-status') == 'Stopped'
    if not control_ok:
        print("NOTE: the control run did not end as documented either")

    problems = []
    if st_b.get('experiment-state') != 'finished':
        problems.append("process is gone but status.txt says experiment-state=%s" % st_b.get('experiment-state'))
    if st_b.get('exit-status') != 'Stopped':
        problems.append("exit-status=%s instead of Stopped (it was set in memory, never written)" %
                        st_b.get('exit-status'))
    if st_b.get('completed-on') in (None, 'N/A'):
        problems.append("completed-on=%s" % st_b.get('completed-on'))
    if 'Clean-up - Clean-up complete' not in out_b:
        where = [l for l in out_b.splitlines() if 'elaunch.py", line' in l]
        problems.append("the finally: block did not run to its end; last elaunch.py frames: %s" %
                        '; '.join(x.strip() for x in where[-3:]))

    if problems:
        print("DEFECT (second signal during clean-up):")
        for p in problems:
            print("  - " + p)
        return 1
    print("OK")
    return 0


if __name__ == '__main__':
    try:
        rc = main()
    finally:
        reap_orphans()
    sys.exit(rc)
