#!/usr/bin/env python
"""demo2 - elaunch.py never exits when anything raises between the creation of the Controller and Run().

Input: a perfectly valid package and one malformed launch option:   elaunch.py -m novalue pkg.package
(`-m` wants key:value). The same path is taken by: --metadata <file that does not exist / is not a dict of strings>,
a user-metadata key that is reserved, an elaunch.yaml that cannot be written (full disk, read-only instance dir),
a discovererMonitorDir that cannot be created.

elaunch.py raises ValueError("Invalid metadata entries") at line ~1839, AFTER `controller = Controller(...)` (line 1779)
and BEFORE Run() (which is what calls statusMonitor.run() and controller.initialise()). The `finally:` block then
  a) calls controller.cleanUp() -> kill_all_components() -> _fake_finish_with_state() -> self.statusDatabase.monitorComponent
     but Controller.statusDatabase is only set by Controller.initialise() -> AttributeError, swallowed per component
     ("Could not setup ... marking it as done"): no ComponentState is ever finished;
  b) subscribes to controller.workflowIsComplete and waits on it WITHOUT timeout -> waits forever, because of (a);
  c) (would then) call statusMonitor.join(), which waits on an Event that only a *started* monitor ever sets
     (StatusMonitor._condition_stopped is created cleared in __init__; kill() on a never-started monitor is a no-op).
So the launcher hangs with no running task, and output/status.txt is never given exit-status=Failed /
error-description / experiment-state=finished: it says "Initialising", exit-status "N/A" for ever
(property C14: the final state is never persisted; focus item (d) - a monitor thread that never started).

The demo gives elaunch 45 seconds (a healthy run of the same package takes < 15 s end to end), then sends SIGTERM to
obtain the traceback that shows where the main thread is parked, then SIGKILL.
Exits non-zero when the defect is present.
"""
import os
import signal
import subprocess
import sys
import tempfile
import time

HERE = os.path.dirname(os.path.abspath(__file__))
ROOT = os.path.dirname(HERE)
ELAUNCH = os.path.join(ROOT, 'scripts', 'elaunch.py')

PACKAGE = """
components:
- name: first
  stage: 0
  command:
    executable: touch
    arguments: made.txt
- name: second
  stage: 1
  references:
  - stage0.first/made.txt:ref
  command:
    executable: test
    arguments: -e stage0.first/made.txt:ref
"""


def read_status(instance):
    ret = {}
    try:
        with open(os.path.join(instance, 'output', 'status.txt')) as f:
            for line in f:
                if '=' in line:
                    k, v = line.rstrip('\n').split('=', 1)
                    ret[k] = v
    except IOError as e:
        ret['<error>'] = str(e)
    return ret


def main():
    work = tempfile.mkdtemp(prefix='demo2-')
    os.makedirs(os.path.join(work, 'pkg.package', 'conf'))
    with open(os.path.join(work, 'pkg.package', 'conf', 'flowir_package.yaml'), 'w') as f:
        f.write(PACKAGE)

    env = dict(os.environ)
    env['PYTHONPATH'] = os.path.join(ROOT, 'python')
    env['PYTHONWARNINGS'] = 'ignore'
    log_path = os.path.join(work, 'elaunch.log')
    cmd = [sys.executable, ELAUNCH, '-f', 'no', '-l', '20', '--haltFile', '/nonexistent', '--killFile',
           '/nonexistent', '--flowConfigPath', '/nonexistent', '--nostamp', '-m', 'novalue', 'pkg.package']

    with open(log_path, 'w') as log:
        proc = subprocess.Popen(cmd, cwd=work, env=env, stdout=log, stderr=subprocess.STDOUT)
        deadline = time.time() + 45
        while time.time() < deadline and proc.poll() is None:
            time.sleep(0.5)

        hung = proc.poll() is None
        status_while_hung = read_status(os.path.join(work, 'pkg.instance'))
        if hung:
            proc.send_signal(signal.SIGTERM)  # signal_handler raises KeyboardInterrupt where the main thread waits
            try:
                proc.wait(10)
            except subprocess.TimeoutExpired:
                proc.kill()
                proc.wait()

    out = open(log_path).read()
    raised = 'Invalid metadata entries' in out
    print("elaunch.py raised the expected ValueError('Invalid metadata entries'): %s" % raised)
    for l in out.splitlines():
        if 'Could not setup' in l or 'Waiting for all components to terminate' in l:
            print("    " + l[l.find(':', 60) + 1:][:220].strip())

    if not hung:
        print("elaunch.py exited by itself with rc=%s" % proc.returncode)
        st = status_while_hung
        if st.get('exit-status') == 'Failed':
            print("OK: launcher terminated and recorded the failure")
            return 0
        print("launcher terminated but status is %s" % st)
        return 0

    print("DEFECT: 45 s after a launch that failed before Run(), elaunch.py is still alive (it would wait for ever)")
    print("  status.txt while it hangs (and after it is killed): exit-status=%s experiment-state=%s "
          "error-description=%r completed-on=%s" % (
              status_while_hung.get('exit-status'), status_while_hung.get('experiment-state'),
              status_while_hung.get('error-description'), status_while_hung.get('completed-on')))
    print("  where the main thread was parked (traceback provoked with SIGTERM):")
    lines = out.splitlines()
    idx = [i for i, l in enumerate(lines) if 'controller_join.wait()' in l or 'statusMonitor.join()' in l]
    if idx:
        for l in lines[max(0, idx[-1] - 1): idx[-1] + 1]:
            print("      " + l)
    return 1


if __name__ == '__main__':
    sys.exit(main())
