#!/usr/bin/env python
"""demo5 - elaunch.yaml (the instance metadata that --restart relies on) is neither kept nor replaced atomically.

elaunch.py, lines 1879-1887, (re)creates <instance>/elaunch.yaml on EVERY start - first launch and every --restart -
with        open(os.path.join(instance, 'elaunch.yaml'), 'w')   followed by a streaming yaml dump,
from the options of the CURRENT command line only.

History (one package with two platforms; the component runs `touch %(greeting)s.txt`, greeting is `hello` on the
default platform and `bonjour` on platform `special`):

  A. elaunch.py -p special -m owner:me -m rest-uid:abc -a vars.yaml pkg.package   -> bonjour.txt, elaunch.yaml complete
  B. elaunch.py --restart 0 <instance>                                            (a plain, successful restart)
        -> elaunch.yaml now says userMetadata: {}, userVariables: {}: what the user supplied at launch is gone
           (the experiment / user-metadata documents are generated from this file: Experiment.read_metadata_contents,
           and e.g. the `rest-uid` that experiment.service.db uses to find the instance disappears).       [fidelity]
  C. elaunch.py --restart 0 <instance>, the process dies (SIGKILL / power loss / ENOSPC) while elaunch.yaml is being
     dumped. Simulated by running the unmodified elaunch.py through runpy with yaml_dump wrapped so that the process
     os._exit()s after half of the text reached the file.
        -> the previous, complete elaunch.yaml has been destroyed by open(..., 'w'); a truncated document is on disk.
                                                                                                           [atomicity]
  D. elaunch.py --restart 0 <instance>            (the user simply restarts again, as the documentation suggests)
        -> Setup() cannot read the platform from the damaged file, logs "Restarting but failed to fetch last used
           platform", and silently loads the instance as a *package on the default platform*: the component now makes
           hello.txt - the restart did NOT load the same experiment (C07) - and elaunch.yaml / flowir_instance.yaml
           are rewritten for platform `default`, so the switch is permanent.

Exits non-zero when the defects are present.
"""
import os
import subprocess
import sys
import tempfile

import yaml

HERE = os.path.dirname(os.path.abspath(__file__))
ROOT = os.path.dirname(HERE)
ELAUNCH = os.path.join(ROOT, 'scripts', 'elaunch.py')

PACKAGE = """
platforms:
- default
- special
variables:
  default:
    global:
      greeting: hello
      suffix: a
  special:
    global:
      greeting: bonjour
components:
- name: first
  stage: 0
  command:
    executable: touch
    arguments: "%(greeting)s.txt"
"""

USER_VARS = """
global:
  suffix: from-user
"""

COMMON = ['-f', 'no', '-l', '20', '--haltFile', '/nonexistent', '--killFile', '/nonexistent',
          '--flowConfigPath', '/nonexistent']

CRASH_RUNNER = r'''
import os, sys, runpy, warnings
warnings.simplefilter('ignore')
import experiment.model.frontends.flowir as F
_orig = F.yaml_dump
def _dump(data, stream=None, **kw):
    name = getattr(stream, 'name', '')
    if isinstance(name, str) and name.endswith('elaunch.yaml'):
        text = _orig(data, None, **kw)
        stream.write(text[:len(text) // 2])
        stream.flush()
        os._exit(137)            # the process dies in the middle of the dump
    return _orig(data, stream, **kw)
F.yaml_dump = _dump
elaunch = sys.argv[1]
sys.argv = sys.argv[1:]
runpy.run_path(elaunch, run_name='__main__')
'''


def env():
    e = dict(os.environ)
    e['PYTHONPATH'] = os.path.join(ROOT, 'python')
    e['PYTHONWARNINGS'] = 'ignore'
    return e


def elaunch(cwd, *args, **kw):
    runner = kw.get('runner')
    cmd = [sys.executable] + ([runner] if runner else []) + [ELAUNCH] + COMMON + list(args)
    proc = subprocess.run(cmd, cwd=cwd, env=env(), stdout=subprocess.PIPE, stderr=subprocess.STDOUT, timeout=100,
                          universal_newlines=True)
    return proc.returncode, proc.stdout


def load(path):
    with open(path) as f:
        text = f.read()
    try:
        return text, yaml.safe_load(text)
    except Exception as e:
        return text, e


def outputs(instance):
    d = os.path.join(instance, 'stages', 'stage0', 'first')
    return sorted(x for x in os.listdir(d) if x.endswith('.txt'))


def main():
    work = tempfile.mkdtemp(prefix='demo5-')
    os.makedirs(os.path.join(work, 'pkg.package', 'conf'))
    with open(os.path.join(work, 'pkg.package', 'conf', 'flowir_package.yaml'), 'w') as f:
        f.write(PACKAGE)
    with open(os.path.join(work, 'vars.yaml'), 'w') as f:
        f.write(USER_VARS)
    runner = os.path.join(work, 'crash_runner.py')
    with open(runner, 'w') as f:
        f.write(CRASH_RUNNER)

    instance = os.path.join(work, 'pkg.instance')
    meta = os.path.join(instance, 'elaunch.yaml')
    bad = 0

    # ---- A
    rc, out = elaunch(work, '--nostamp', '-p', 'special', '-m', 'owner:me', '-m', 'rest-uid:abc', '-a', 'vars.yaml',
                      'pkg.package')
    _, a = load(meta)
    print("A  launch            rc=%s platform=%s userMetadata=%s userVariables=%s files=%s" % (
        rc, a['platform'], a['userMetadata'], a['userVariables'], outputs(instance)))
    if rc != 0 or outputs(instance) != ['bonjour.txt']:
        print("SETUP PROBLEM"); print(out[-2000:]); return 2

    # ---- B
    rc, out = elaunch(work, '--restart', '0', instance)
    _, b = load(meta)
    print("B  --restart 0       rc=%s platform=%s userMetadata=%s userVariables=%s files=%s" % (
        rc, b['platform'], b['userMetadata'], b['userVariables'], outputs(instance)))
    if b['userMetadata'] != a['userMetadata'] or b['userVariables'] != a['userVariables']:
        print("DEFECT 5a: a plain restart rewrote elaunch.yaml without the user metadata / user variables of the "
              "launch (was %s / %s)" % (a['userMetadata'], a['userVariables']))
        bad = 1

    # ---- C
    before_text, _ = load(meta)
    rc, out = elaunch(work, '--restart', '0', instance, runner=runner)
    text, c = load(meta)
    print("C  --restart 0, process dies while dumping elaunch.yaml: rc=%s; elaunch.yaml is now %d bytes (was %d):" % (
        rc, len(text), len(before_text)))
    print("      " + text.replace('\n', '\n      ')[-160:])
    complete = isinstance(c, dict) and set(c) == set(b)
    if not complete:
        print("DEFECT 5b: neither the complete previous nor the complete new elaunch.yaml is on disk "
              "(loads as: %s)" % (type(c).__name__ if not isinstance(c, dict) else sorted(c)))
        bad = 1

    # ---- D
    for name in outputs(instance):
        os.remove(os.path.join(instance, 'stages', 'stage0', 'first', name))
    rc, out = elaunch(work, '--restart', '0', instance)
    _, d = load(meta)
    warned = 'failed to fetch last used platform' in out
    print("D  --restart 0 again rc=%s  'failed to fetch last used platform' logged=%s  platform now=%s  files=%s" % (
        rc, warned, d.get('platform') if isinstance(d, dict) else d, outputs(instance)))
    if outputs(instance) != ['bonjour.txt']:
        print("DEFECT 5c: after the interrupted update the restart ran a different experiment: the component produced "
              "%s instead of ['bonjour.txt'] (platform silently switched from 'special' to %r, exit code %s)" % (
                  outputs(instance), d.get('platform') if isinstance(d, dict) else None, rc))
        bad = 1

    return bad


if __name__ == '__main__':
    sys.exit(main())
