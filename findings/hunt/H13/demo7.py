#!/usr/bin/env python
"""demo7 - a live patch (SIGALRM) that fails in its second half leaves the Controller asleep for ever:
the stage loop never ends (C02) and elaunch.py never exits.

LivePatcher.live_patch (scripts/elaunch.py:788-941):
    pause_experiment()                      -> Controller.sleep(): _start_sleeping = True
    try: load the patch ... except: wake_up_experiment(); return        (lines 793-848, protected)
    try: new component dirs ... except: wake_up_experiment(); return    (lines 854-878, protected)
    switchWorkflowGraph / updateStages / generate_components(check_executables=True) /
    controller.parse_workflow_graph() / output_agent.parse_key_outputs() / archive conf    (lines 902-939, NOT protected)
    wake_up_experiment()                                                 (line 941)
Anything that raises in the unprotected part kills the live_patch thread before wake_up_experiment(): the experiment
keeps the half-applied patch (new graph, new Job objects) and Controller._start_sleeping stays True. While it is set
Controller.finalize_submit_components() submits nothing and Controller.finishedCheck() only queues the finished
components, so no component is ever added to comp_done and Controller.run() spins in its `while True` loop.

Input: a running one-stage experiment (slow = `sleep 15`, after = `ls slow:ref`) and a patch directory
<instance>/../flow.patch that adds a component whose executable does not exist (a typo in the patch).
generate_components() -> checkExecutable() raises ComponentExecutableCannotBeFoundError in the live_patch thread.

Expected (as for the two protected sections): "Experiment will continue from the point just before the attempt to
live-patch", the run ends some seconds after `slow`.
Observed: 30 s after `slow` has finished `after` has not been started, status.txt still says running and elaunch.py is
alive; it never returns (the demo kills it).
Exits non-zero when the defect is present.
"""
import os
import signal
import subprocess
import sys
import tempfile
import time

HERE = os.path.dirname(os.path.abspath(__file__))
ROOT = os.path.dirname(HERE)
ELAUNCH = os.path.join(ROOT, 'scripts', 'elaunch.py')

DURATION = "15.%05d" % (os.getpid() % 100000)

PACKAGE = """
components:
- name: slow
  stage: 0
  command:
    executable: sleep
    arguments: "%(duration)s"
- name: after
  stage: 0
  references:
  - slow:ref
  command:
    executable: ls
    arguments: slow:ref
%(extra)s
"""

EXTRA = """
- name: extra
  stage: 0
  references:
  - slow:ref
  command:
    executable: /nonexistent/tool-with-a-typo
    arguments: slow:ref
"""


def read_status(instance):
    ret = {}
    try:
        with open(os.path.join(instance, 'output', 'status.txt')) as f:
            for line in f:
                if '=' in line:
                    k, v = line.rstrip('\n').split('=', 1)
                    ret[k] = v
    except IOError as e:
        ret['<error>'] = str(e)
    return ret


def reap_orphans():
    for pid in [p for p in os.listdir('/proc') if p.isdigit()]:
        try:
            with open('/proc/%s/cmdline' % pid, 'rb') as f:
                args = f.read().split(b'\0')
        except (IOError, OSError):
            continue
        if DURATION.encode() in args and args[0].endswith(b'sleep'):
            try:
                os.kill(int(pid), signal.SIGKILL)
            except OSError:
                pass


def main():
    work = tempfile.mkdtemp(prefix='demo7-')
    for d, extra in (('pkg.package', ''), ('flow.patch', EXTRA)):
        os.makedirs(os.path.join(work, d, 'conf'))
        with open(os.path.join(work, d, 'conf', 'flowir_package.yaml'), 'w') as f:
            f.write(PACKAGE % {'duration': DURATION, 'extra': extra})

    env = dict(os.environ)
    env['PYTHONPATH'] = os.path.join(ROOT, 'python')
    env['PYTHONWARNINGS'] = 'ignore'
    log_path = os.path.join(work, 'elaunch.log')
    instance = os.path.join(work, 'pkg.instance')
    cmd = [sys.executable, ELAUNCH, '-f', 'no', '-l', '20', '--haltFile', '/nonexistent', '--killFile',
           '/nonexistent', '--flowConfigPath', '/nonexistent', '--nostamp', 'pkg.package']

    with open(log_path, 'w') as log:
        proc = subprocess.Popen(cmd, cwd=work, env=env, stdout=log, stderr=subprocess.STDOUT)
        deadline = time.time() + 40
        started = None
        while time.time() < deadline and proc.poll() is None:
            with open(log_path) as f:
                if 'Starting /usr/bin/sleep' in f.read() or 'Starting sleep' in open(log_path).read():
                    started = time.time()
                    break
            time.sleep(0.1)
        if started is None:
            print("SETUP PROBLEM: the task never started")
            proc.kill()
            return 2
        time.sleep(1.0)
        proc.send_signal(signal.SIGALRM)          # "apply the patch in ../flow.patch"

        # `slow` ends 15 s after it started; give the experiment 30 more seconds to run `after` and finish
        give_up = started + 15 + 30
        while time.time() < give_up and proc.poll() is None:
            time.sleep(0.5)
        alive = proc.poll() is None
        st = read_status(instance)
        if alive:
            proc.kill()
            proc.wait()

    out = open(log_path).read()
    thread_died = 'Exception in thread' in out and 'live_patch' in out
    woke = 'Waking up experiment' in out
    after_ran = os.path.exists(os.path.join(instance, 'stages', 'stage0', 'after', 'out.stdout'))
    slow_done = 'Finished state of stage0.slow' in out or 'Postpone finishedCheck() of stage0.slow' in out
    print("live_patch thread died with an exception : %s" % thread_died)
    for l in out.splitlines():
        if 'ComponentExecutableCannotBeFoundError: ' in l:
            print("    " + l[:170] + ' ...')
            break
    print("wake_up_experiment() was called           : %s" % woke)
    print("component `after` was ever launched       : %s" % after_ran)
    print("elaunch.py alive 30 s after `slow` ended  : %s   (status.txt: experiment-state=%s stage-state=%s "
          "exit-status=%s)" % (alive, st.get('experiment-state'), st.get('stage-state'), st.get('exit-status')))

    if alive and thread_died and not woke:
        print("DEFECT: the failed live patch left the Controller sleeping for ever - the stage never completes and "
              "the launcher never exits")
        return 1
    if not alive:
        print("elaunch exited with %s" % proc.returncode)
    return 0


if __name__ == '__main__':
    try:
        rc = main()
    finally:
        reap_orphans()
    sys.exit(rc)
