#!/usr/bin/env python
"""demo4 - output.txt / output.json never carry the `description` and `type` that the package gives to a key-output.

OutputAgent.parse_key_outputs() (python/experiment/runtime/output.py:594-595) reads the two fields from the WHOLE
`output` section (`output_section`, a dict keyed by key-output name) instead of from the entry of the key-output
(`conf_package`):

        'description': output_section.get('description', ''),
        'type': output_section.get('type', '')

so a) the description/type written in FlowIR are silently replaced by '' in output.txt, output.json and in the
`output` field of the experiment document, and b) if the workflow happens to have a key-output that is itself called
`description` (or `type`), EVERY key-output gets the python repr of that entry's dictionary as its description.

In-process: build an instance from a package, create the OutputAgent exactly as elaunch.Setup() does, let it process
the stage and read output.json back (property C14, key-output listing: the values read back are not the values of the
experiment).  Exits non-zero when the defect is present.
"""
import json
import logging
import os
import sys
import tempfile

HERE = os.path.dirname(os.path.abspath(__file__))
ROOT = os.path.dirname(HERE)
sys.path.insert(0, os.path.join(ROOT, 'python'))

import warnings
warnings.simplefilter('ignore')
logging.basicConfig(level=50)

import experiment.model.data
import experiment.model.storage
import experiment.runtime.output

PACKAGE = """
components:
- name: first
  stage: 0
  command:
    executable: touch
    arguments: made.txt
output:
  result:
    data-in: first/made.txt:ref
    description: "the file that first makes"
    type: "txt"
    stages:
    - stage0
%(extra)s
"""

EXTRA = """
  description:
    data-in: first/made.txt:copy
    stages:
    - stage0
"""


def build(work, name, extra):
    pkg = os.path.join(work, name + '.package')
    os.makedirs(os.path.join(pkg, 'conf'))
    with open(os.path.join(pkg, 'conf', 'flowir_package.yaml'), 'w') as f:
        f.write(PACKAGE % {'extra': extra})
    package = experiment.model.storage.ExperimentPackage.packageFromLocation(pkg)
    exp = experiment.model.data.Experiment.experimentFromPackage(package, location=work, timestamp=False)
    declared = exp.experimentGraph.configuration.get_key_outputs()['result']
    agent = experiment.runtime.output.OutputAgent(exp)
    agent.checkDataReferences()
    # pretend the component ran
    open(os.path.join(exp.instanceDirectory.location, 'stages', 'stage0', 'first', 'made.txt'), 'w').close()
    agent.process_stage(0)
    with open(os.path.join(exp.instanceDirectory.outputDir, 'output.json')) as f:
        stored = json.load(f)
    return declared, stored


def main():
    work = tempfile.mkdtemp(prefix='demo4-')
    bad = 0

    declared, stored = build(work, 'plain', '')
    print("declared in FlowIR : description=%r type=%r" % (declared.get('description'), declared.get('type')))
    print("read from output.json: description=%r type=%r" % (stored['result']['description'],
                                                            stored['result']['type']))
    if stored['result']['description'] != declared.get('description') or stored['result']['type'] != declared.get(
            'type'):
        print("DEFECT: the key-output listing lost the description/type of the key-output")
        bad = 1

    declared, stored = build(work, 'named', EXTRA)
    print("with a second key-output named 'description': result.description read back = %r" %
          stored['result']['description'][:120])
    if stored['result']['description'] != declared.get('description'):
        print("DEFECT: the description of 'result' is the repr of ANOTHER key-output's entry")
        bad = 1

    return bad


if __name__ == '__main__':
    sys.exit(main())
