#!/usr/bin/env python
"""demo1 - C07 (and C05): loop iterations instantiated after a reload are configured differently.

Run:  cd /tmp/wt/H2 && PYTHONPATH=/tmp/wt/H2/python /venv/bin/python HUNT/demo1.py

Package: platform `plat`; the DEFAULT platform has a blueprint for stage 1 and platform `plat` has a GLOBAL blueprint
that sets the same option (resourceManager.config.walltime and .backend here). The documented order of inheritance
(FlowIRConcrete.get_component_configuration) is

    default global < default stage < PLATFORM global < platform stage < component

so on platform `plat` every component of stage 1 gets walltime=99 / backend=simulator. Stage 1 contains a DoWhile.

History:
  1. experiment created for platform `plat`, iteration 1 instantiated           -> 0#work, 1#work : walltime 99
  2. instance loaded again, NAMING the platform (Experiment.experimentFromInstance(dir, platform='plat')), as a
     restart does
  3. iteration 2 instantiated in the reloaded experiment                        -> 2#work : walltime 10  (!!)
  control: iteration 2 instantiated in the experiment that was never reloaded   -> 2#work : walltime 99

flowir_instance.yaml stores the selected platform folded into `default`:  blueprint.default.global = default global +
plat global, blueprint.default.stages[i] = default stage + plat stage. Loaded again that reads
"global < stage", i.e. the default STAGE blueprint now beats the PLATFORM GLOBAL one. The components that existed when
the file was written are immune (the blueprint is baked into each stored component), every component created
afterwards (= every further loop iteration) silently gets the other value.

Exits 1 when the defect is present, 0 otherwise.
"""
import logging
import os
import sys
import tempfile
import warnings

warnings.simplefilter('ignore')
logging.disable(logging.CRITICAL)

import experiment.model.data
import experiment.model.frontends.flowir
import experiment.model.storage

DOWHILE = """
type: DoWhile
inputBindings:
  number:
    type: ref
loopBindings:
  number: work:ref
condition: 'work/next:output'
components:
- name: work
  command:
    executable: cat
    arguments: number:ref/a.txt
  references:
  - number:ref
"""

MAIN = """
platforms: [default, plat]
blueprint:
  default:
    global:
      resourceManager:
        config:
          walltime: 5
    stages:
      1:
        resourceManager:
          config:
            walltime: 10
            backend: local
  plat:
    global:
      resourceManager:
        config:
          walltime: 99
          backend: simulator
components:
- stage: 0
  name: gen
  command:
    executable: echo
    arguments: "0"
- stage: 1
  $import: dowhile.yaml
  name: loop
  bindings:
    number: stage0.gen:ref
"""

FlowIR = experiment.model.frontends.flowir.FlowIR


def next_iteration(exp, number):
    graph = exp.experimentGraph
    document = graph._documents[FlowIR.LabelDoWhile]['stage1.loop']['document']
    graph.instantiate_dowhile_next_iteration(document, number, True)


def settings(exp):
    graph = exp.experimentGraph
    ret = {}
    for name in sorted(graph.graph.nodes):
        config = graph.configurationForNode(name, raw=False)['resourceManager']['config']
        ret[name] = (config['walltime'], config['backend'])
    return ret


def main():
    pkg_dir = tempfile.mkdtemp(prefix='demo1-pkg-')
    os.makedirs(os.path.join(pkg_dir, 'conf'))
    with open(os.path.join(pkg_dir, 'conf', 'dowhile.yaml'), 'w') as f:
        f.write(DOWHILE)
    with open(os.path.join(pkg_dir, 'conf', 'flowir_package.yaml'), 'w') as f:
        f.write(MAIN)

    package = experiment.model.storage.ExperimentPackage.packageFromLocation(pkg_dir, platform='plat')
    live = experiment.model.data.Experiment.experimentFromPackage(
        package, location=tempfile.mkdtemp(prefix='demo1-inst-'), platform='plat')

    next_iteration(live, 1)
    before = settings(live)
    print("live experiment, platform plat, k=1      :", before)

    reloaded = experiment.model.data.Experiment.experimentFromInstance(
        live.instanceDirectory.location, platform='plat')
    after = settings(reloaded)
    print("reloaded (platform named), k=1           :", after)

    next_iteration(reloaded, 2)
    reloaded_k2 = settings(reloaded)
    print("reloaded, then iteration 2 instantiated  :", reloaded_k2)

    next_iteration(live, 2)
    live_k2 = settings(live)
    print("never reloaded, iteration 2 instantiated :", live_k2)

    bad = []
    if before != after:
        bad.append("the reloaded experiment differs from the one that wrote the instance (k=1)")
    if reloaded_k2 != live_k2:
        diff = {n: (live_k2[n], reloaded_k2.get(n)) for n in live_k2 if live_k2[n] != reloaded_k2.get(n)}
        bad.append("iteration 2 instantiated after the reload is configured differently from iteration 2 of the "
                   "same experiment without the reload: {node: (expected, actual)} = %s" % diff)

    if bad:
        print()
        for msg in bad:
            print("DEFECT (C07/C05):", msg)
        return 1

    print("OK")
    return 0


if __name__ == '__main__':
    sys.exit(main())
