#!/usr/bin/env python
"""demo3 - C05: a looped component that mentions the same reference twice in one string is wired only once.

Run:  cd /tmp/wt/H2 && PYTHONPATH=/tmp/wt/H2/python /venv/bin/python HUNT/demo3.py

The DoWhile document contains the component

    - name: work
      command:
        executable: cat
        arguments: number:ref/a.txt number:ref/b.txt init:ref/x init:ref/y
      references: [number:ref, init:ref]

`number` is the loop-carried input (loopBindings: number: work:ref), `init` is a sibling looped component. Reading two
files of the same producer is the most ordinary command line there is; written directly in flowir_package.yaml
(`stage0.gen:ref/a.txt stage0.gen:ref/b.txt`) it is accepted - the control below shows it.

rewrite_all_references() (python/experiment/model/frontends/flowir.py:211-223) substitutes only the FIRST occurrence
of every reference it finds in a string, so in every iteration i the command line of i#work still contains the
template text `number:ref/b.txt` and `init:ref/y`, while its `references` list is rewritten correctly:
the command line does not take its loop-carried input from instance i-1 (nor from the original binding for i=0).
The experiment is rejected by validateExperiment() ("Possible unresolved reference ... number"), at run time the
literal text would be handed to `cat`.

Exits 1 when the defect is present, 0 otherwise.
"""
import logging
import os
import sys
import tempfile
import warnings

warnings.simplefilter('ignore')
logging.disable(logging.CRITICAL)

import experiment.model.data
import experiment.model.frontends.flowir
import experiment.model.graph
import experiment.model.storage

FlowIR = experiment.model.frontends.flowir.FlowIR

DOWHILE = """
type: DoWhile
inputBindings:
  number:
    type: ref
loopBindings:
  number: work:ref
condition: 'work/next:output'
components:
- name: init
  command:
    executable: echo
    arguments: hi
- name: work
  command:
    executable: cat
    arguments: number:ref/a.txt number:ref/b.txt init:ref/x init:ref/y
  references:
  - number:ref
  - init:ref
"""

MAIN = """
components:
- stage: 0
  name: gen
  command:
    executable: echo
    arguments: "0"
- stage: 0
  name: control
  command:
    executable: cat
    arguments: stage0.gen:ref/a.txt stage0.gen:ref/b.txt
  references:
  - stage0.gen:ref
- stage: 1
  $import: dowhile.yaml
  name: loop
  bindings:
    number: stage0.gen:ref
"""


def main():
    pkg_dir = tempfile.mkdtemp(prefix='demo3-pkg-')
    os.makedirs(os.path.join(pkg_dir, 'conf'))
    with open(os.path.join(pkg_dir, 'conf', 'dowhile.yaml'), 'w') as f:
        f.write(DOWHILE)
    with open(os.path.join(pkg_dir, 'conf', 'flowir_package.yaml'), 'w') as f:
        f.write(MAIN)

    package = experiment.model.storage.ExperimentPackage.packageFromLocation(pkg_dir)
    exp = experiment.model.data.Experiment.experimentFromPackage(
        package, location=tempfile.mkdtemp(prefix='demo3-inst-'))
    graph = exp.experimentGraph

    document = graph._documents[FlowIR.LabelDoWhile]['stage1.loop']['document']
    for number in (1, 2):
        graph.instantiate_dowhile_next_iteration(document, number, True)

    bad = []
    for i in range(3):
        name = 'stage1.%d#work' % i
        config = graph.configurationForNode(name, raw=False)
        source = 'stage0.gen' if i == 0 else 'stage1.%d#work' % (i - 1)
        expected_refs = ['%s:ref' % source, 'stage1.%d#init:ref' % i]
        expected_args = '%s:ref/a.txt %s:ref/b.txt stage1.%d#init:ref/x stage1.%d#init:ref/y' % (source, source, i, i)
        args = config['command']['arguments']
        print("%s\n    references: %s\n    arguments : %s" % (name, config['references'], args))
        if config['references'] != expected_refs:
            bad.append("%s: references %s, expected %s" % (name, config['references'], expected_refs))
        if args != expected_args:
            bad.append("%s: arguments\n      actual  : %s\n      expected: %s" % (name, args, expected_args))

    spec = graph.graph.nodes['stage0.control']['componentSpecification']
    try:
        spec.checkDataReferences()
        print("control (same shape of command line, defined in flowir_package.yaml): checkDataReferences() passes")
    except Exception as e:
        print("control component rejected too (%s) - then this would be intended behaviour" % e)
        return 0

    try:
        exp.validateExperiment()
        print("validateExperiment(): passes")
    except Exception as e:
        print("validateExperiment(): %s: %s" % (type(e).__name__, str(e).strip().splitlines()[0][:150]))

    if bad:
        print()
        for msg in bad:
            print("DEFECT (C05):", msg)
        return 1
    print("OK")
    return 0


if __name__ == '__main__':
    sys.exit(main())
