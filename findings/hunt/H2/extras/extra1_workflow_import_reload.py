#!/usr/bin/env python
"""extra1 - C07: an instance whose package imports a `Workflow` document cannot be loaded again.

Run:  cd /tmp/wt/H2 && PYTHONPATH=/tmp/wt/H2/python /venv/bin/python HUNT/extras/extra1_workflow_import_reload.py

1. builds a package whose flowir_package.yaml contains one `$import` of a document with `type: Workflow`
2. creates an experiment instance from it (Experiment.experimentFromPackage) - this works and conf/flowir_instance.yaml is written
   (note: the `$import` entry itself also shows up as a node `stage1.sub` without a command - see findings.md)
3. loads the instance directory again (Experiment.experimentFromInstance, what `elaunch.py --restart`, einspect,
   etc. do). Nothing happened in between: no loop iteration, no option patched.

Expected: the same experiment (same nodes, same configuration).
Actual:   ExperimentInvalidConfigurationError "Component stage1.work exists multiple times in FlowIR description".

Exits 1 when the defect is present, 0 otherwise.
"""
import logging
import os
import sys
import tempfile
import warnings

warnings.simplefilter('ignore')
logging.disable(logging.CRITICAL)

import experiment.model.data
import experiment.model.storage

WORKFLOW = """
type: Workflow
inputBindings:
  number:
    type: ref
components:
- name: work
  command:
    executable: cat
    arguments: number:ref/a.txt
  references:
  - number:ref
- name: report
  stage: 1
  command:
    executable: cat
    arguments: stage0.work:ref/a.txt
  references:
  - stage0.work:ref
"""

MAIN = """
components:
- stage: 0
  name: gen
  command:
    executable: echo
    arguments: "0"
- stage: 1
  $import: wf.yaml
  name: sub
  bindings:
    number: stage0.gen:ref
"""


def snapshot(exp):
    graph = exp.experimentGraph
    return {
        name: (graph.configurationForNode(name, raw=False), sorted(graph.graph.predecessors(name)))
        for name in sorted(graph.graph.nodes)
    }


def main():
    pkg_dir = tempfile.mkdtemp(prefix='extra1-pkg-')
    os.makedirs(os.path.join(pkg_dir, 'conf'))
    with open(os.path.join(pkg_dir, 'conf', 'wf.yaml'), 'w') as f:
        f.write(WORKFLOW)
    with open(os.path.join(pkg_dir, 'conf', 'flowir_package.yaml'), 'w') as f:
        f.write(MAIN)

    package = experiment.model.storage.ExperimentPackage.packageFromLocation(pkg_dir)
    exp = experiment.model.data.Experiment.experimentFromPackage(
        package, location=tempfile.mkdtemp(prefix='extra1-inst-'))
    before = snapshot(exp)
    print("experiment created from the package; nodes:", sorted(before))

    instance_file = os.path.join(exp.instanceDirectory.location, 'conf', 'flowir_instance.yaml')
    print("stored instance description:", instance_file)

    try:
        again = experiment.model.data.Experiment.experimentFromInstance(exp.instanceDirectory.location)
    except Exception as e:
        print()
        print("DEFECT (C07): the instance that was just written cannot be loaded again:")
        print("  %s: %s" % (type(e).__name__, str(e).strip().splitlines()[-1]))
        return 1

    after = snapshot(again)
    if before != after:
        print("DEFECT (C07): the reloaded experiment differs from the one that wrote the instance")
        return 1

    print("OK: the instance was reloaded and is identical")
    return 0


if __name__ == '__main__':
    sys.exit(main())
