#!/usr/bin/env python
"""extra2 - C05: an input binding whose value is a FILE (data/..., input/...) is never substituted.

cd /tmp/wt/H2 && PYTHONPATH=/tmp/wt/H2/python /venv/bin/python HUNT/extras/extra2_binding_to_file.py

validate_provided_bindings() accepts a binding value that is not a component (stage index None), and the natural
"start from an input file, then feed the previous iteration" loop needs it. rewrite_all_references() however drops
every rewrite whose target is not a known component (`if comp_id not in all_known: continue`, flowir.py:190-192), so
iteration 0 keeps the literal text `number:ref` (which then reads as a reference to a component stage1.number).
"""
import os
import sys
import _common
import experiment.model.frontends.flowir as F

DOWHILE = """
type: DoWhile
inputBindings:
  number:
    type: ref
loopBindings:
  number: work/out.txt:ref
condition: 'work/next:output'
components:
- name: work
  command:
    executable: cat
    arguments: number:ref
  references:
  - number:ref
"""
MAIN = """
components:
- stage: 0
  name: gen
  command:
    executable: echo
    arguments: "0"
- stage: 1
  $import: dowhile.yaml
  name: loop
  bindings:
    number: data/start.txt:ref
"""
pkg = _common.write_package(MAIN, {'dowhile.yaml': DOWHILE})
flowir, _ = F.package_document_load(os.path.join(pkg, 'conf', 'flowir_package.yaml'), False)
work = [c for c in flowir['components'] if c['name'] == '0#work'][0]
print("0#work:", work['command']['arguments'], work['references'])
if work['references'] != ['data/start.txt:ref']:
    print("DEFECT (C05): iteration 0 does not take its input from the original binding data/start.txt:ref")
    sys.exit(1)
print("OK")
