#!/usr/bin/env python
"""extra5 - C07: options patched at run time (setOptionForNode) are neither stored nor kept across a loop iteration.

cd /tmp/wt/H2 && PYTHONPATH=/tmp/wt/H2/python /venv/bin/python HUNT/extras/extra5_patched_options_lost.py

validateExperiment() -> ComponentSpecification.checkExecutable(updateSpecification=True) writes the resolved executable
(and, for kubernetes/docker, the pinned image id) with setOption('#command.executable', ...). That goes to
FlowIRExperimentConfiguration._concrete (the replicated description) only. flowir_instance.yaml is generated from
_unreplicated, and WorkflowGraph.instantiate_dowhile_next_iteration() calls configuration.replicate(), which REBUILDS
_concrete from _unreplicated: the patch disappears from every component (also outside the loop) the moment a loop
iterates, and a reload never sees it. Impact for executables is small (they are resolved again), for the pinned
container image it defeats the purpose of pinning; reported as an observation, not as a headline defect.
"""
import sys
import _common
import experiment.model.data

DOWHILE = """
type: DoWhile
inputBindings:
  number:
    type: ref
loopBindings:
  number: work:ref
condition: 'work/next:output'
components:
- name: work
  command:
    executable: cat
    arguments: number:ref/a.txt
  references:
  - number:ref
"""
MAIN = """
components:
- stage: 0
  name: gen
  command:
    executable: echo
    arguments: "0"
- stage: 1
  $import: dowhile.yaml
  name: loop
  bindings:
    number: stage0.gen:ref
- stage: 2
  name: after
  command:
    executable: echo
    arguments: stage1.work:ref
  references:
  - stage1.work:ref
"""


def executables(exp):
    graph = exp.experimentGraph
    return {n: graph.configurationForNode(n, raw=False)['command']['executable'] for n in sorted(graph.graph.nodes)}


exp = _common.make_experiment(MAIN, {'dowhile.yaml': DOWHILE})
exp.validateExperiment()
live = executables(exp)
print("live, validated      :", live)
reloaded = executables(experiment.model.data.Experiment.experimentFromInstance(exp.instanceDirectory.location))
print("reloaded             :", reloaded)
graph = exp.experimentGraph
graph.instantiate_dowhile_next_iteration(
    graph._documents[_common.FlowIR.LabelDoWhile]['stage1.loop']['document'], 1, True)
after = executables(exp)
print("live, after 1 more it:", after)
if live != reloaded or any(after[n] != live[n] for n in live):
    print("OBSERVATION (C07): configurationForNode() of the live experiment != reloaded one; "
          "a loop iteration reverts the patched options of every node")
    sys.exit(1)
print("OK")
