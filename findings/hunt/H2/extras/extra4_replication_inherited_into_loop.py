#!/usr/bin/env python
"""extra4 - C05: a looped component that INHERITS replication from the producer its loop is bound to.

cd /tmp/wt/H2 && PYTHONPATH=/tmp/wt/H2/python /venv/bin/python HUNT/extras/extra4_replication_inherited_into_loop.py

stage0.gen replicates (2); the loop's `work` consumes it through the input binding and so becomes 0#work0, 0#work1 (the
aggregating `cond` closes the replication). WorkflowGraph._discover_dowhile_placeholders() (graph.py:2891-2942) derives
the placeholder names by replicating the TEMPLATE components on their own - there `work` has no replicated producer, the
placeholder is `stage1.work`, nothing matches 0#work0/0#work1 and `sorted(...)[0]` raises IndexError while the package
is loaded. (The variant fixed by 36600e0 has `replicate` on the looped component itself.)
"""
import sys
import _common

DOWHILE = """
type: DoWhile
inputBindings:
  number:
    type: ref
loopBindings:
  number: cond:ref
condition: 'cond/next:output'
components:
- name: work
  command:
    executable: cat
    arguments: number:ref/a.txt
  references:
  - number:ref
- name: cond
  command:
    executable: echo
    arguments: work:ref
  references:
  - work:ref
  workflowAttributes:
    aggregate: true
"""
MAIN = """
components:
- stage: 0
  name: gen
  command:
    executable: echo
    arguments: "0"
  workflowAttributes:
    replicate: 2
- stage: 1
  $import: dowhile.yaml
  name: loop
  bindings:
    number: stage0.gen:ref
"""
try:
    exp = _common.make_experiment(MAIN, {'dowhile.yaml': DOWHILE})
except Exception as e:
    print("DEFECT (C05): the package cannot be loaded:", _common.last_line(e))
    import traceback
    tb = traceback.extract_tb(e.__traceback__)[-1]
    print("   raised at %s:%d in %s" % (tb.filename, tb.lineno, tb.name))
    sys.exit(1)
print("loaded:", sorted(exp.experimentGraph.graph.nodes))
print("OK")
