"""helpers shared by the extra*.py scripts (run with PYTHONPATH=/tmp/wt/H2/python)"""
import logging
import os
import tempfile
import warnings

warnings.simplefilter('ignore')
logging.disable(logging.CRITICAL)

import experiment.model.data
import experiment.model.frontends.flowir
import experiment.model.graph
import experiment.model.storage

FlowIR = experiment.model.frontends.flowir.FlowIR


def write_package(main, documents):
    pkg_dir = tempfile.mkdtemp(prefix='extra-pkg-')
    os.makedirs(os.path.join(pkg_dir, 'conf'))
    for name, contents in documents.items():
        with open(os.path.join(pkg_dir, 'conf', name), 'w') as f:
            f.write(contents)
    with open(os.path.join(pkg_dir, 'conf', 'flowir_package.yaml'), 'w') as f:
        f.write(main)
    return pkg_dir


def make_experiment(main, documents, platform=None):
    pkg_dir = write_package(main, documents)
    package = experiment.model.storage.ExperimentPackage.packageFromLocation(pkg_dir, platform=platform)
    return experiment.model.data.Experiment.experimentFromPackage(
        package, location=tempfile.mkdtemp(prefix='extra-inst-'), platform=platform)


def last_line(exc):
    return "%s: %s" % (type(exc).__name__, str(exc).strip().splitlines()[-1][:200])
