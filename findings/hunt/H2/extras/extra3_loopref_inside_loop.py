#!/usr/bin/env python
"""extra3 - C05: a looped component that aggregates its sibling with :loopref depends on its own loop's condition.

cd /tmp/wt/H2 && PYTHONPATH=/tmp/wt/H2/python /venv/bin/python HUNT/extras/extra3_loopref_inside_loop.py

Loop: work -> summarize (reads `work:loopref`, all iterations so far) -> cond. rewrite_all_references() deliberately
leaves :loopref/:loopoutput references of looped components pointing to the placeholder, so the shape is anticipated.
WorkflowGraph._createCompleteGraph() (graph.py:3189-3220) expands EVERY reference to a placeholder into "all instances
+ the component that produces the current condition" - also for components inside the loop. summarize therefore waits
for cond which waits for summarize: the graph of iteration 0 already contains a cycle (validation rejects it with a
ValueError raised while building the CircularComponentReferenceError), iteration 1 cannot be instantiated.
"""
import sys
import networkx
import _common

DOWHILE = """
type: DoWhile
inputBindings:
  number:
    type: ref
loopBindings:
  number: work:ref
condition: 'cond/next:output'
components:
- name: work
  command:
    executable: cat
    arguments: number:ref/a.txt
  references:
  - number:ref
- name: summarize
  command:
    executable: cat
    arguments: work:loopref
  references:
  - work:loopref
- name: cond
  command:
    executable: echo
    arguments: summarize:ref
  references:
  - summarize:ref
"""
MAIN = """
components:
- stage: 0
  name: gen
  command:
    executable: echo
    arguments: "0"
- stage: 1
  $import: dowhile.yaml
  name: loop
  bindings:
    number: stage0.gen:ref
"""
exp = _common.make_experiment(MAIN, {'dowhile.yaml': DOWHILE})
cycles = list(networkx.simple_cycles(exp.experimentGraph.graph))
print("cycles in the graph of iteration 0:", cycles)
try:
    exp.validateExperiment()
    print("validateExperiment(): passes")
except Exception as e:
    print("validateExperiment():", _common.last_line(e))
if cycles:
    print("DEFECT (C05): iteration 0 of a legal loop shape is wired into a cycle")
    sys.exit(1)
print("OK")
