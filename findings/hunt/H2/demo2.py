#!/usr/bin/env python
"""demo2 - C05 + C07: a DoWhile whose input is bound to a looped component of ANOTHER DoWhile document.

Run:  cd /tmp/wt/H2 && PYTHONPATH=/tmp/wt/H2/python /venv/bin/python HUNT/demo2.py

Package: stage0.gen -> DoWhile `loopA` (stage 1, component `work`) -> DoWhile `loopB` (stage 2, component `work`,
binding  number: stage1.work:ref , i.e. the placeholder of loopA = "the last iteration of loopA") -> stage3.after.
References to a placeholder from outside its loop are a documented feature (tests/test_dowhile.py `report`), and
package_document_load() explicitly registers "expected components (and placeholders) from soon-to-be-imported Workflow
(and DoWhile) documents" before it validates the bindings.

What happens with the unmodified code:

 (a) whether the package loads depends on the ORDER in which the two `$import` entries are listed in `components`
     (a YAML list whose order has no meaning anywhere else in FlowIR):  [loopB, loopA] loads and validates - iteration
     0 of loopB correctly depends on every instance of stage1.work -, [loopA, loopB] raises
     FlowIRReferenceToUnknownComponent for stage1.work.
 (b) C07: flowir_instance.yaml lists the components in the iteration order of a Python set of (stage, name) tuples,
     i.e. in an order that depends on the string hash seed of the process that writes it. The instance of the package
     that loaded fine can therefore not be loaded again in roughly every other process (the same exception as (a)).
 (c) C05: in the experiment that did load, loopA iterates normally but the FIRST further iteration of loopB always
     raises FlowIRReferenceToUnknownComponent (at run time Controller._instantiate_next_dowhile_iteration -> all
     components are killed and the experiment fails after loopA and iteration 0 of loopB have run).

Exits 1 when any of (a), (b), (c) is observed, 0 otherwise.
"""
import logging
import os
import subprocess
import sys
import tempfile
import warnings

warnings.simplefilter('ignore')
logging.disable(logging.CRITICAL)

import experiment.model.data
import experiment.model.frontends.flowir
import experiment.model.graph
import experiment.model.storage

FlowIR = experiment.model.frontends.flowir.FlowIR

DOWHILE = """
type: DoWhile
inputBindings:
  number:
    type: ref
loopBindings:
  number: work:ref
condition: 'work/next:output'
components:
- name: work
  command:
    executable: cat
    arguments: number:ref/a.txt
  references:
  - number:ref
"""

HEAD = """
components:
- stage: 0
  name: gen
  command:
    executable: echo
    arguments: "0"
- stage: 3
  name: after
  command:
    executable: echo
    arguments: stage2.work:ref
  references:
  - stage2.work:ref
"""

LOOP_A = """
- stage: 1
  $import: dowhile.yaml
  name: loopA
  bindings:
    number: stage0.gen:ref
"""

LOOP_B = """
- stage: 2
  $import: dowhile.yaml
  name: loopB
  bindings:
    number: stage1.work:ref
"""


def make_experiment(order):
    pkg_dir = tempfile.mkdtemp(prefix='demo2-pkg-')
    os.makedirs(os.path.join(pkg_dir, 'conf'))
    with open(os.path.join(pkg_dir, 'conf', 'dowhile.yaml'), 'w') as f:
        f.write(DOWHILE)
    with open(os.path.join(pkg_dir, 'conf', 'flowir_package.yaml'), 'w') as f:
        f.write(HEAD + ''.join(order))
    package = experiment.model.storage.ExperimentPackage.packageFromLocation(pkg_dir)
    return experiment.model.data.Experiment.experimentFromPackage(
        package, location=tempfile.mkdtemp(prefix='demo2-inst-'))


def next_iteration(exp, dw_name, number):
    graph = exp.experimentGraph
    document = graph._documents[FlowIR.LabelDoWhile][dw_name]['document']
    graph.instantiate_dowhile_next_iteration(document, number, True)


def last_line(exc):
    return "%s: %s" % (type(exc).__name__, str(exc).strip().splitlines()[-1][:160])


def child():
    """Creates the instance of the package that loads ([loopB, loopA]) and loads it again - in ONE process, so that
    the order of the stored components only depends on PYTHONHASHSEED"""
    exp = make_experiment([LOOP_B, LOOP_A])
    next_iteration(exp, 'stage1.loopA', 1)
    try:
        experiment.model.data.Experiment.experimentFromInstance(exp.instanceDirectory.location)
    except Exception as e:
        print("RELOAD-FAILED " + last_line(e))
    else:
        print("RELOAD-OK")


def main():
    bad = []

    # (a) -------------------------------------------------------------------------------------------------------
    exp = make_experiment([LOOP_B, LOOP_A])
    exp.validateExperiment()
    graph = exp.experimentGraph
    print("(a) components listed as [loopB, loopA]: package loads and validates")
    next_iteration(exp, 'stage1.loopA', 1)
    next_iteration(exp, 'stage1.loopA', 2)
    print("    loopA iterated twice; predecessors of stage2.0#work: %s" % sorted(graph.graph.predecessors('stage2.0#work')))
    resolved = experiment.model.graph.DataReference('stage1.work:ref').resolve(graph)
    print("    its input stage1.work:ref resolves to .../%s" % '/'.join(resolved.split('/')[-2:]))

    try:
        make_experiment([LOOP_A, LOOP_B])
    except Exception as e:
        print("    components listed as [loopA, loopB]: the SAME package does not load:\n      %s" % last_line(e))
        bad.append("(a) whether the package loads depends on the order of the $import entries")
    else:
        print("    components listed as [loopA, loopB]: loads too")

    # (c) -------------------------------------------------------------------------------------------------------
    try:
        next_iteration(exp, 'stage2.loopB', 1)
    except Exception as e:
        print("(c) iteration 1 of loopB cannot be instantiated:\n      %s" % last_line(e))
        bad.append("(c) C05: the loop that is bound to the other loop's placeholder cannot iterate")
    else:
        nodes = sorted(n for n in graph.graph.nodes if n.startswith('stage2.'))
        print("(c) iteration 1 of loopB instantiated: %s" % nodes)

    # (b) -------------------------------------------------------------------------------------------------------
    results = {}
    for seed in range(1, 7):
        env = dict(os.environ, PYTHONHASHSEED=str(seed))
        out = subprocess.run([sys.executable, os.path.abspath(__file__), '--child'], env=env, stdout=subprocess.PIPE,
                             stderr=subprocess.DEVNULL, universal_newlines=True).stdout
        lines = [line for line in out.splitlines() if line.startswith('RELOAD-')]
        results[seed] = lines[-1] if lines else 'NO-RESULT'
    print("(b) create the instance ([loopB, loopA], loopA at k=1) and load it again, one process per PYTHONHASHSEED:")
    for seed in sorted(results):
        print("      seed %d: %s" % (seed, results[seed]))
    if any(not r.startswith('RELOAD-OK') for r in results.values()):
        bad.append("(b) C07: an instance that was stored by a working experiment cannot be loaded again "
                   "(depends on the hash seed of the process)")

    if bad:
        print()
        for msg in bad:
            print("DEFECT", msg)
        return 1
    print("OK")
    return 0


if __name__ == '__main__':
    if '--child' in sys.argv:
        child()
        sys.exit(0)
    sys.exit(main())
