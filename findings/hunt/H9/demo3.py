#!/usr/bin/env python
"""demo3 - DSL 2.0: the names that namespace_to_flowir() gives to components are not unique / not always defined.

 a) two steps called `gen` (one in the entry workflow, one in a nested workflow) are disambiguated as `gen` and
    `gen-I`.  `gen-I` is itself a legal step name (StepNamePattern = [.A-Za-z0-9_-]+, it even satisfies the stricter
    SignatureNamePattern).  A document that has both is refused with a raw FlowIRComponentExists (not a
    DSLInvalidError) although every step has a unique location.
 b) the same happens for steps `gen` and `stage0.gen` of two different workflows (the optional `stage<N>.` prefix
    of a step name is stripped AFTER the uniqueness bookkeeping, which is keyed on the unstripped name).
 c) a step whose name ends in a digit (legal for ExecuteStep.target / Workflow.steps keys) makes
    namespace_to_flowir() die with AttributeError: 'NoneType' object has no attribute 'groupdict'.

Run:  cd /tmp/wt/H9 && PYTHONPATH=/tmp/wt/H9/python /venv/bin/python HUNT/demo3.py
"""
import logging
import sys
import traceback
import warnings

warnings.simplefilter("ignore")
logging.disable(logging.CRITICAL)

import yaml

import experiment.model.errors
import experiment.model.frontends.dsl as dsl

TEMPLATE = """
entrypoint:
  entry-instance: main
  execute:
  - target: "<entry-instance>"
workflows:
- signature:
    name: main
  steps:
    gen: generate
    %(other)s: generate
    sub: nested
    use: consume
  execute:
  - target: <gen>
    args: {msg: top-gen}
  - target: <%(other)s>
    args: {msg: top-other}
  - target: <sub>
  - target: <use>
    args:
      a: <gen>:ref
      b: <%(other)s>:ref
      c: <sub/%(nested)s>:ref
- signature:
    name: nested
  steps:
    %(nested)s: generate
  execute:
  - target: <%(nested)s>
    args: {msg: nested}
components:
- signature:
    name: generate
    parameters:
    - name: msg
  command:
    executable: echo
    arguments: "%%(msg)s"
- signature:
    name: consume
    parameters:
    - name: a
    - name: b
    - name: c
  command:
    executable: cat
    arguments: "%%(a)s %%(b)s %%(c)s"
"""

cases = [
    ("control: steps gen / other / sub/gen", {"other": "other", "nested": "gen"}),
    ("a) steps gen / gen-I / sub/gen", {"other": "gen-I", "nested": "gen"}),
    ("b) steps gen / other / sub/stage0.gen", {"other": "other", "nested": "stage0.gen"}),
    ("c) steps gen / other1 / sub/gen", {"other": "other1", "nested": "gen"}),
]

problems = []
for label, names in cases:
    namespace = dsl.Namespace(**yaml.safe_load(TEMPLATE % names))  # the schema accepts all of them
    dsl.lightweight_validate(namespace)  # and so does the light-weight validation
    try:
        concrete = dsl.namespace_to_flowir(namespace)
    except experiment.model.errors.DSLInvalidError as e:
        print(f"{label}: DSLInvalidError {[str(x) for x in e.underlying_errors]}")
        continue
    except Exception as e:
        last = traceback.extract_tb(e.__traceback__)[-1]
        print(f"{label}: {type(e).__name__}: {e}   [{last.filename.split('/')[-1]}:{last.lineno}]")
        problems.append(f"{label}: schema + lightweight_validate accept the document, namespace_to_flowir raises "
                        f"{type(e).__name__} instead of producing uniquely named components (or a DSLInvalidError)")
        continue

    comps = {(c["stage"], c["name"]): c["command"]["arguments"] for c in concrete.get_components()}
    print(f"{label}: {comps}")

if problems:
    print("\nDEFECT (component naming in namespace_to_flowir):")
    for p in problems:
        print("  -", p)
    sys.exit(1)
print("OK")
