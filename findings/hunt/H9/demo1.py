#!/usr/bin/env python
"""demo1 - DSL 2.0: an environment written in a Component template is hashed / stored BEFORE the parameters
of the step are filled in.

Two steps instantiate the same template with a different argument; the template's environment uses the
parameter (MSG: "%(msg)s").  Expected: step `one` runs with MSG=first, step `two` with MSG=second (that is what
happens to command.arguments, variables, resourceManager ... of the very same template).

Actual: both steps share ONE FlowIR environment `env0` that still contains the text "%(msg)s".  FlowIR later
resolves it against the *global* variables, i.e. the hallucinated copies of the entrypoint's parameters:
  - the entry workflow happens to have a parameter with the same name -> both steps silently get ITS value
  - it does not -> the package loads and validates, and blows up with FlowIRVariableUnknown when the
    environment is built (launch time)

Run:  cd /tmp/wt/H9 && PYTHONPATH=/tmp/wt/H9/python /venv/bin/python HUNT/demo1.py
"""
import logging
import os
import sys
import tempfile
import warnings

warnings.simplefilter("ignore")
logging.disable(logging.CRITICAL)

import yaml

import experiment.model.data
import experiment.model.errors
import experiment.model.frontends.dsl
import experiment.model.storage

DSL = """
entrypoint:
  entry-instance: main
  execute:
  - target: "<entry-instance>"
    args:
      %(entry_param)s: top
workflows:
- signature:
    name: main
    parameters:
    - name: %(entry_param)s
  steps:
    one: printer
    two: printer
  execute:
  - target: <one>
    args:
      msg: first
  - target: <two>
    args:
      msg: second
components:
- signature:
    name: printer
    parameters:
    - name: msg
  command:
    executable: sh
    arguments: -c "echo $MSG %%(msg)s"
    environment:
      MSG: "%%(msg)s"
"""

problems = []


def load(dsl: str) -> experiment.model.data.Experiment:
    root = tempfile.mkdtemp(prefix="h9demo1-")
    package = os.path.join(root, "pkg.package")
    os.makedirs(os.path.join(package, "conf"))
    with open(os.path.join(package, "conf", "dsl.yaml"), "w") as f:
        f.write(dsl)
    pkg = experiment.model.storage.ExperimentPackage.packageFromLocation(package)
    exp = experiment.model.data.Experiment.experimentFromPackage(pkg, location=root)
    exp.validateExperiment(checkExecutables=False)
    return exp


# --- 0. the front-end considers the document fine
doc = yaml.safe_load(DSL % {"entry_param": "msg"})
namespace = experiment.model.frontends.dsl.Namespace(**doc)
experiment.model.frontends.dsl.lightweight_validate(namespace)  # raises if it dislikes %(msg)s in the environment
concrete = experiment.model.frontends.dsl.namespace_to_flowir(namespace)
raw = concrete.raw()
print("FlowIR environments produced by namespace_to_flowir():", raw["environments"])
print("component -> environment:", {c["name"]: c["command"]["environment"] for c in raw["components"]})
print("component -> arguments  :", {c["name"]: c["command"]["arguments"] for c in raw["components"]})

# --- 1. the entry workflow has a parameter that is also called `msg`
exp = load(DSL % {"entry_param": "msg"})
graph = exp.experimentGraph.graph
expected = {"stage0.one": "first", "stage0.two": "second"}
for node, want in expected.items():
    spec = graph.nodes[node]["componentSpecification"]
    got = spec.environment.get("MSG")
    args = spec.commandDetails["arguments"]
    print(f"{node}: arguments={args!r}  environment MSG={got!r} (the step was given msg={want!r})")
    if got != want:
        problems.append(f"{node}: MSG is {got!r}, the step passed msg={want!r} "
                        f"(arguments of the same component did receive {want!r})")

# --- 2. the entry workflow has no parameter called `msg`
exp = load(DSL % {"entry_param": "other"})  # loads + validates without a complaint
for node in expected:
    spec = exp.experimentGraph.graph.nodes[node]["componentSpecification"]
    try:
        got = spec.environment.get("MSG")
        print(f"{node}: MSG={got!r}")
    except experiment.model.errors.FlowIRVariableUnknown as e:
        problems.append(f"{node}: package was accepted by packageFromLocation/experimentFromPackage/"
                        f"validateExperiment but its environment cannot be built: {e}")

if problems:
    print("\nDEFECT (DSL environment is not resolved per step):")
    for p in problems:
        print("  -", p)
    sys.exit(1)

print("OK - every step received its own environment")
