#!/usr/bin/env python
"""demo2 - DSL 2.0: an OutputReference that names a step which does not exist (a typo) is not reported.
Depending on where it is written the loader either binds it SILENTLY to a different component or never returns.

 A) entrypoint.output[].data-in: "<entry-instance/typo>:output"   ->  key output of stage0.use (!)
    entrypoint.output[].data-in: "<entry-instance/sub/typo>:ref"  ->  key output of stage0.gen (!)
 B) argument of a step `src: <sub/typo>:ref`, consumer aggregates   ->  the consumer reads stage0.gen:ref (!)
 C) the same argument, consumer neither replicates nor aggregates  ->  namespace_to_flowir() spins forever in
    ScopeStack.can_template_replicate (also for `wf: <sub>`, a reference to a step that is a Workflow, which is
    the use that the docstring of digest_dsl_component() describes).

Cause of A/B: OutputReference.split() picks the known component with the longest COMMON PREFIX, it does not
require the whole location of that component to match.  Cause of C: `continue` inside `while location:` without
shortening `location` when the location is the scope of a Workflow.

Run:  cd /tmp/wt/H9 && PYTHONPATH=/tmp/wt/H9/python /venv/bin/python HUNT/demo2.py
"""
import copy
import logging
import os
import subprocess
import sys
import warnings

warnings.simplefilter("ignore")
logging.disable(logging.CRITICAL)

import yaml

import experiment.model.errors
import experiment.model.frontends.dsl as dsl

DOC = """
entrypoint:
  entry-instance: main
  execute:
  - target: "<entry-instance>"
workflows:
- signature:
    name: main
  steps:
    sub: nested
    use: consume
  execute:
  - target: <sub>
  - target: <use>
    args:
      src: <sub/gen>:ref
- signature:
    name: nested
  steps:
    gen: generate
  execute:
  - target: <gen>
components:
- signature:
    name: generate
  command:
    executable: echo
    arguments: hello
- signature:
    name: consume
    parameters:
    - name: src
  command:
    executable: cat
    arguments: "%(src)s"
"""

problems = []


def convert(doc):
    namespace = dsl.Namespace(**copy.deepcopy(doc))
    dsl.lightweight_validate(namespace)
    try:
        return dsl.namespace_to_flowir(namespace)
    except experiment.model.errors.DSLInvalidError as e:
        return e


base = yaml.safe_load(DOC)
print("steps that exist: entry-instance/sub/gen (component), entry-instance/use (component), "
      "entry-instance/sub (workflow)")

# ---------------------------------------------------------------- A) key outputs
for data_in in ("<entry-instance/typo>:output", "<entry-instance/sub/typo>:ref",
                "<entry-instance/typo/a/b.txt>:ref"):
    doc = copy.deepcopy(base)
    doc["entrypoint"]["output"] = [{"name": "result", "data-in": data_in}]
    res = convert(doc)
    if isinstance(res, Exception):
        print(f"A) data-in {data_in}: rejected ({res})")
    else:
        bound = res.get_output()["result"]["data-in"]
        print(f"A) data-in {data_in}: accepted, key output is {bound}")
        problems.append(f"key-output data-in {data_in} names a step that does not exist, it is silently bound to "
                        f"{bound}")

# ---------------------------------------------------------------- B) argument of an aggregating consumer
doc = copy.deepcopy(base)
doc["workflows"][0]["execute"][1]["args"]["src"] = "<sub/typo>:ref"
doc["components"][1]["workflowAttributes"] = {"aggregate": True}
res = convert(doc)
if isinstance(res, Exception):
    print(f"B) src <sub/typo>:ref: rejected ({res})")
else:
    use = [c for c in res.get_components() if c["name"] == "use"][0]
    print(f"B) src <sub/typo>:ref: accepted, stage0.use has arguments={use['command']['arguments']!r} "
          f"references={use['references']}")
    problems.append(f"argument <sub/typo>:ref (no step `typo` in workflow `sub`) is silently bound to "
                    f"{use['references']}")

# ---------------------------------------------------------------- C) plain consumer: never returns
CHILD = r'''
import faulthandler, logging, sys, warnings, copy
warnings.simplefilter("ignore"); logging.disable(logging.CRITICAL)
faulthandler.dump_traceback_later(8, exit=False)
import yaml
import experiment.model.errors
import experiment.model.frontends.dsl as dsl
doc = yaml.safe_load(sys.stdin.read())
namespace = dsl.Namespace(**doc)
dsl.lightweight_validate(namespace)
try:
    dsl.namespace_to_flowir(namespace); print("converted")
except experiment.model.errors.DSLInvalidError as e:
    print("DSLInvalidError", [str(x) for x in e.underlying_errors])
'''
env = dict(os.environ)
here = os.path.dirname(os.path.abspath(__file__))
env.setdefault("PYTHONPATH", os.path.join(os.path.dirname(here), "python"))

for value in ("<sub/typo>:ref", "<sub>"):
    doc = copy.deepcopy(base)
    doc["workflows"][0]["execute"][1]["args"]["src"] = value
    if value == "<sub>":
        doc["components"][1]["command"]["arguments"] = "%(src)s/gen/out.txt:ref"
    try:
        done = subprocess.run([sys.executable, "-c", CHILD], input=yaml.safe_dump(doc), env=env, timeout=15,
                              capture_output=True, text=True)
        print(f"C) src {value}: terminated: {done.stdout.strip()[:300]} {done.stderr.strip()[-300:]}")
    except subprocess.TimeoutExpired as e:
        err = e.stderr.decode() if isinstance(e.stderr, bytes) else (e.stderr or "")
        where = [line.strip() for line in err.splitlines() if "dsl.py" in line][:2]
        print(f"C) src {value}: namespace_to_flowir() still running after 15 s; stuck at {where}")
        problems.append(f"argument {value}: namespace_to_flowir() does not terminate (spins in "
                        f"ScopeStack.can_template_replicate)")

if problems:
    print("\nDEFECT (references to steps that do not exist / to workflow steps):")
    for p in problems:
        print("  -", p)
    sys.exit(1)
print("OK")
