#!/usr/bin/env python
"""demo2 - C08: components that share a YAML node (anchor/alias) share one dictionary inside FlowIRConcrete.

Updating ONE component through the configuration interface rewrites the description of the OTHER one, but only the
cache entries of the component that was named are invalidated: the other component keeps answering with its stale,
cached configuration, which differs from the configuration computed from scratch from the current description
(and from what raw()/flowir_instance.yaml now say).

Run:  cd /tmp/wt/H4 && PYTHONPATH=/tmp/wt/H4/python /venv/bin/python HUNT/demo2.py
"""
import warnings
warnings.simplefilter('ignore')
import logging
logging.disable(logging.CRITICAL)
import os
import shutil
import sys
import tempfile

import experiment.model.frontends.flowir as F
import experiment.model.graph
import experiment.model.storage

PACKAGE = """
variables:
  default:
    global: {}
    stages: {0: {}}
environments: {default: {}}
platforms: [default]
components:
- stage: 0
  name: first
  command: {executable: echo, arguments: "%(msg)s"}
  variables: &common          # plain YAML: both components are written with the same variables
    msg: hello
- stage: 0
  name: second
  command: {executable: echo, arguments: "%(msg)s"}
  variables: *common
"""

problems = []


def arguments(concrete, name):
    return concrete.get_component_configuration((0, name), include_default=True)['command']['arguments']


# ---- 1. FlowIRConcrete: history  query(second) ; set(first) ; query(second)
concrete = F.FlowIRConcrete(F.yaml_load(PACKAGE), 'default', {})
assert concrete.validate() == []
assert (arguments(concrete, 'first'), arguments(concrete, 'second')) == ('hello', 'hello')   # fills the cache

concrete.set_component_variable((0, 'first'), 'msg', 'bye')      # the documented scope of this call is `first` only

live = {n: arguments(concrete, n) for n in ('first', 'second')}
scratch_concrete = F.FlowIRConcrete(concrete.raw(), 'default', {})
scratch = {n: arguments(scratch_concrete, n) for n in ('first', 'second')}
described = {c['name']: c['variables'] for c in concrete.raw()['components']}
print('FlowIRConcrete after set_component_variable(stage0.first, msg, bye)')
print('   live queries                :', live)
print('   computed from scratch       :', scratch)
print('   current description (raw()) :', described)

if live != scratch:
    problems.append('stage0.second answers %r from the cache but the configuration computed from scratch from the '
                    'current description is %r' % (live['second'], scratch['second']))
if described['second'] != {'msg': 'hello'}:
    problems.append('an update of stage0.first rewrote the description of stage0.second: %r' % described['second'])

# ---- 2. the same through the public package/graph API (primitive graph, nothing is cached there: the update of one
#         component is simply visible in the other one)
root = tempfile.mkdtemp(prefix='demo2-')
try:
    os.makedirs(os.path.join(root, 'pkg.package', 'conf'))
    with open(os.path.join(root, 'pkg.package', 'conf', 'flowir_package.yaml'), 'w') as f:
        f.write(PACKAGE)
    package = experiment.model.storage.ExperimentPackage.packageFromLocation(os.path.join(root, 'pkg.package'))
    wg = experiment.model.graph.WorkflowGraph.graphFromPackage(
        package, primitive=True, createInstanceConfiguration=False)
    first = wg.graph.nodes['stage0.first']['componentSpecification']
    second = wg.graph.nodes['stage0.second']['componentSpecification']
    before = second.configuration['command']['arguments']
    first.setOption('msg', 'bye')
    after = second.configuration['command']['arguments']
    print('WorkflowGraph (primitive): stage0.second before/after stage0.first.setOption(msg, bye):', before, '/', after)
    if before != after:
        problems.append('ComponentSpecification.setOption on stage0.first changed the configuration of stage0.second '
                        '(%r -> %r)' % (before, after))
finally:
    shutil.rmtree(root, ignore_errors=True)

if problems:
    print('\nDEFECT (C08):')
    for p in problems:
        print('  -', p)
    sys.exit(1)
print('ok')
