#!/usr/bin/env python
"""demo1 - C08: a new DoWhile iteration silently discards every update made through the configuration interface.

Run:  cd /tmp/wt/H4 && PYTHONPATH=/tmp/wt/H4/python /venv/bin/python HUNT/demo1.py
Exits 1 (and prints what is wrong) on the unmodified code.
"""
import warnings
warnings.simplefilter('ignore')
import logging
import os
import shutil
import sys
import tempfile

logging.disable(logging.CRITICAL)

import experiment.model.data
import experiment.model.frontends.flowir
import experiment.model.storage

DOWHILE = """
type: DoWhile
inputBindings:
  number:
    type: output
loopBindings:
  number: add:output
condition: 'stop/iteration.next:output'
components:
- name: add
  command:
    executable: echo
    arguments: "$((1+number:output))"
  references:
  - "number:output"
- name: stop
  command:
    executable: echo
    arguments: add:output
  references:
  - add:output
"""

MAIN = """
environments:
  default:
    environment:
      DEFAULTS: PATH
      PATH: $PATH
components:
- stage: 0
  name: GenerateInput
  command:
    executable: echo
    arguments: "0"
- stage: 1
  $import: dowhile.yaml
  name: loop
  bindings:
    number: stage0.GenerateInput:output
- stage: 2
  name: report
  command:
    executable: echo
    arguments: "stage1.add:output %(colour)s"
  references: ["stage1.add:output"]
  variables:
    colour: red
"""

root = tempfile.mkdtemp(prefix='demo1-')
problems = []
try:
    pkg = os.path.join(root, 'pkg.package')
    os.makedirs(os.path.join(pkg, 'conf'))
    open(os.path.join(pkg, 'conf', 'dowhile.yaml'), 'w').write(DOWHILE)
    open(os.path.join(pkg, 'conf', 'flowir_package.yaml'), 'w').write(MAIN)
    os.chdir(root)

    package = experiment.model.storage.ExperimentPackage.packageFromLocation(pkg)
    instance_dir = experiment.model.storage.ExperimentInstanceDirectory.newInstanceDirectory(root, package=package)
    exp = experiment.model.data.Experiment(instance_dir, is_instance=True)
    wg = exp.experimentGraph

    report = wg.graph.nodes['stage2.report']['componentSpecification']

    # -- updates through the configuration interface (ComponentSpecification.setOption -> setOptionForNode)
    # 1. what checkExecutable() does for every component when the experiment is validated
    exp.validateExperiment()
    resolved_executable = report.configuration['command']['executable']
    assert os.path.isabs(resolved_executable), resolved_executable
    # 2. an explicit variable and option update of a component that is NOT part of the loop
    report.setOption('colour', 'blue')
    report.setOption('#workflowAttributes.maxRestarts', 7)

    def observe(label):
        conf = report.configuration
        fresh = experiment.model.frontends.flowir.FlowIRConcrete(
            wg.configuration.get_flowir_concrete(return_copy=False).raw(), wg.platform, {}
        ).get_component_configuration((2, 'report'), include_default=True)
        view = {
            'executable': conf['command']['executable'],
            'arguments': conf['command']['arguments'],
            'maxRestarts': conf['workflowAttributes']['maxRestarts'],
        }
        print('%-28s %s' % (label, view))
        return view, fresh

    before, _ = observe('after the updates:')
    assert before == {'executable': resolved_executable, 'arguments': 'stage1.add:output blue', 'maxRestarts': 7}

    # -- the loop goes to its next iteration (what Controller does when the condition says "True")
    FlowIR = experiment.model.frontends.flowir.FlowIR
    do_while = list(wg._documents[FlowIR.LabelDoWhile].values())[0]['document']
    new = wg.instantiate_dowhile_next_iteration(do_while, 1, False)
    print('new iteration added         ', new)

    after, _ = observe('after iteration 1 was added:')

    for key in before:
        if before[key] != after[key]:
            problems.append('stage2.report %s: update lost, %r reverted to %r' % (key, before[key], after[key]))
finally:
    shutil.rmtree(root, ignore_errors=True)

if problems:
    print('\nDEFECT (C08): queries do not reflect the latest updates once a DoWhile instantiates an iteration:')
    for p in problems:
        print('  -', p)
    sys.exit(1)
print('ok')
