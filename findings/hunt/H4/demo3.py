#!/usr/bin/env python
"""demo3 - C08: the cache is invalidated with a regular expression built from the *unescaped* component name.

A component whose (valid) name contains a character that is special in a regular expression, e.g. `dft+u`, `opt(2)`,
`x[0]`, `cost$`, never gets its cache entries invalidated: after the first query every update of that component
(variables, options, update_component, delete+add) is invisible to get_component_configuration() and therefore to
ComponentSpecification.configuration, the engines, etc.

Run:  cd /tmp/wt/H4 && PYTHONPATH=/tmp/wt/H4/python /venv/bin/python HUNT/demo3.py
"""
import warnings
warnings.simplefilter('ignore')
import logging
logging.disable(logging.CRITICAL)
import os
import shutil
import sys
import tempfile

import experiment.model.data
import experiment.model.frontends.flowir as F
import experiment.model.storage

problems = []

# ---- 1. plain FlowIRConcrete, sequential history: query ; update ; query
for name in ['plain', 'dft+u', 'opt(2)', 'x[0]', 'cost$']:
    flowir = {
        'components': [{'stage': 0, 'name': name, 'command': {'executable': 'echo', 'arguments': '%(x)s'},
                        'variables': {'x': 'old'}}],
        'variables': {'default': {'global': {}, 'stages': {0: {}}}},
        'environments': {'default': {}}, 'platforms': ['default'],
    }
    concrete = F.FlowIRConcrete(flowir, 'default', {})
    assert concrete.validate() == [], name            # the name is accepted by the validation
    cid = (0, name)
    concrete.get_component_configuration(cid, include_default=True)          # query (fills the cache)
    concrete.set_component_variable(cid, 'x', 'new')                         # update
    concrete.set_component_option(cid, '#command.executable', 'cat')         # update
    live = concrete.get_component_configuration(cid, include_default=True)['command']
    scratch = F.FlowIRConcrete(concrete.raw(), 'default', {}).get_component_configuration(
        cid, include_default=True)['command']
    live, scratch = (live['executable'], live['arguments']), (scratch['executable'], scratch['arguments'])
    print('%-8s live=%-16r from scratch=%-16r %s' % (name, live, scratch, 'STALE' if live != scratch else ''))
    if live != scratch:
        problems.append('stage0.%s: query after update returns %r, from scratch it is %r' % (name, live, scratch))

# ---- 2. the ordinary Experiment path: validateExperiment() resolves the executable of every component and stores it
#         with setOption(); the component called dft+u never sees its resolved executable
PACKAGE = """
environments:
  default:
    environment: {DEFAULTS: PATH, PATH: $PATH}
components:
- {stage: 0, name: dft, command: {executable: echo, arguments: hi}}
- {stage: 0, name: dft+u, command: {executable: echo, arguments: hi}}
"""
root = tempfile.mkdtemp(prefix='demo3-')
try:
    os.makedirs(os.path.join(root, 'pkg.package', 'conf'))
    with open(os.path.join(root, 'pkg.package', 'conf', 'flowir_package.yaml'), 'w') as f:
        f.write(PACKAGE)
    os.chdir(root)
    package = experiment.model.storage.ExperimentPackage.packageFromLocation(os.path.join(root, 'pkg.package'))
    exp = experiment.model.data.Experiment.experimentFromPackage(package, location=root)
    exp.validateExperiment()
    concrete = exp.experimentGraph.configuration.get_flowir_concrete(return_copy=False)
    for name in ('dft', 'dft+u'):
        spec = exp.experimentGraph.graph.nodes['stage0.%s' % name]['componentSpecification']
        seen = spec.configuration['command']['executable']
        described = concrete.get_component((0, name))['command']['executable']
        print('Experiment: stage0.%-6s configuration says %-14r description says %r' % (name, seen, described))
        if seen != described:
            problems.append('stage0.%s: after validateExperiment() the configuration still has executable %r, '
                            'the description has %r' % (name, seen, described))
finally:
    shutil.rmtree(root, ignore_errors=True)

if problems:
    print('\nDEFECT (C08): stale configuration for component names with regular-expression metacharacters')
    for p in problems:
        print('  -', p)
    sys.exit(1)
print('ok')
