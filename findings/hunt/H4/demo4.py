#!/usr/bin/env python
"""demo4 - C08 (interleaving): the cache entry is invalidated BEFORE the description is changed, and readers fill the
cache without any ordering w.r.t. writers.

set_component_variable()/set_component_option()/delete_component_variable()/remove_component_option() obtain the live
dictionary with get_component(return_copy=False) - which is what invalidates the cache - and only then mutate it.
A reader (ComponentSpecification.configuration is read by engine/controller threads all the time) that runs between
the two steps misses the cache, resolves the OLD description and stores it. Nothing invalidates that entry afterwards:
the component answers with the old configuration for the rest of the run.

The writer thread is stalled between its two steps with an Event (no library code is replaced, the original
invalidate_reg_expression is called and only followed by a pause).

Run:  cd /tmp/wt/H4 && PYTHONPATH=/tmp/wt/H4/python /venv/bin/python HUNT/demo4.py
"""
import warnings
warnings.simplefilter('ignore')
import logging
logging.disable(logging.CRITICAL)
import sys
import threading

import experiment.model.frontends.flowir as F

flowir = {
    'components': [{'stage': 0, 'name': 'comp', 'command': {'executable': 'echo', 'arguments': '%(x)s'},
                    'variables': {'x': 'old'}}],
    'variables': {'default': {'global': {}, 'stages': {0: {}}}},
    'environments': {'default': {}}, 'platforms': ['default'],
}
concrete = F.FlowIRConcrete(flowir, 'default', {})
cid = (0, 'comp')
concrete.get_component_configuration(cid, include_default=True)

invalidated, queried = threading.Event(), threading.Event()
original = F.FlowIRCache.invalidate_reg_expression


def invalidate_then_stall(self, reg_expression):
    ret = original(self, reg_expression)
    if threading.current_thread().name == 'writer' and not invalidated.is_set():
        invalidated.set()          # step 1 (invalidate) is done ...
        queried.wait(10)           # ... the thread is descheduled before step 2 (the mutation)
    return ret


F.FlowIRCache.invalidate_reg_expression = invalidate_then_stall
seen_by_reader = []


def writer():
    concrete.set_component_variable(cid, 'x', 'new')


def reader():
    invalidated.wait(10)
    seen_by_reader.append(concrete.get_component_configuration(cid, include_default=True)['command']['arguments'])
    queried.set()


threads = [threading.Thread(target=writer, name='writer'), threading.Thread(target=reader, name='reader')]
[t.start() for t in threads]
[t.join(20) for t in threads]
F.FlowIRCache.invalidate_reg_expression = original

# both threads are done; the update has completed. Every later query should see it.
live = concrete.get_component_configuration(cid, include_default=True)['command']['arguments']
scratch = F.FlowIRConcrete(concrete.raw(), 'default', {}).get_component_configuration(
    cid, include_default=True)['command']['arguments']
print('reader (concurrent with the update) saw:', seen_by_reader)
print('query after the update completed       :', live)
print('computed from scratch                  :', scratch)
if live != scratch:
    print('\nDEFECT (C08): the completed update set_component_variable(x=new) is invisible; the cache holds the '
          'configuration that a concurrent reader resolved between the invalidation and the mutation')
    sys.exit(1)
print('ok')
