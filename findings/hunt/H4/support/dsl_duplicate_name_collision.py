import warnings; warnings.simplefilter('ignore')
import yaml, sys
import experiment.model.frontends.dsl as D
doc = yaml.safe_load("""
entrypoint:
  entry-instance: main
  execute:
  - target: "<entry-instance>"
    args: {}
workflows:
- signature:
    name: main
    parameters: []
  steps:
    sub1: sub
    sub2: sub
    work-I: comp
  execute:
  - target: "<sub1>"
    args: {msg: one}
  - target: "<sub2>"
    args: {msg: two}
  - target: "<work-I>"
    args: {msg: three}
- signature:
    name: sub
    parameters:
    - name: msg
  steps:
    work: comp
  execute:
  - target: "<work>"
    args: {msg: "%(msg)s"}
components:
- signature:
    name: comp
    parameters:
    - name: msg
  command:
    executable: echo
    arguments: "%(msg)s"
""")
ns = D.Namespace(**doc)
try:
    c = D.namespace_to_flowir(ns)
    for comp in c.get_components():
        print(comp['stage'], comp['name'], comp['command'])
    print(sorted(c.get_component_identifiers(True)))
except Exception as e:
    import traceback; traceback.print_exc()
