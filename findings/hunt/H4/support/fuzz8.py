import warnings; warnings.simplefilter('ignore')
import logging; logging.disable(logging.CRITICAL)
import copy, json, random, sys
import experiment.model.frontends.flowir as F

PLATS = ['default', 'plat', 'p2']
NAMES = ['a', 'ab', 'a1', 'a10', 'b', '0#a', '1#a']
def base():
    comps = []
    for st in (0, 1):
        for n in NAMES[:5]:
            comps.append({'stage': st, 'name': n,
                          'command': {'executable': 'echo', 'arguments': '%(x)s %(g)s %(s)s'},
                          'variables': {'x': '1'},
                          'override': {'plat': {'variables': {'x': 'ov'}, 'command': {'executable': 'cat'}}}})
    return {
        'components': comps,
        'variables': {'default': {'global': {'g': 'G', 's': 'gs'}, 'stages': {0: {'s': 'S0'}, 1: {}}},
                      'plat': {'global': {'g': 'PG'}, 'stages': {0: {}, 1: {'s': 'PS1'}}},
                      'p2': {'global': {}, 'stages': {}}},
        'blueprint': {'default': {'global': {'resourceRequest': {'numberThreads': 2}}, 'stages': {1: {'resourceRequest': {'numberProcesses': 3}}}},
                      'plat': {'global': {'resourceManager': {'config': {'backend': 'local'}}}}},
        'environments': {'default': {}, 'plat': {}, 'p2': {}},
        'platforms': PLATS,
    }

def check(c, tag, hist):
    for plat in PLATS:
        fresh = F.FlowIRConcrete(c.raw(), plat, copy.deepcopy(c._documents))
        for cid in sorted(c.get_component_identifiers(True)):
            for kw in (dict(include_default=True), dict(include_default=True, raw=True), dict()):
                try:
                    a = c.get_component_configuration(cid, platform=plat, **kw)
                    ea = None
                except Exception as e:
                    a, ea = None, type(e).__name__
                try:
                    b = fresh.get_component_configuration(cid, **kw)
                    eb = None
                except Exception as e:
                    b, eb = None, type(e).__name__
                if a != b or ea != eb:
                    print('MISMATCH', tag, plat, cid, kw, ea, eb)
                    print(' live ', json.dumps(a, sort_keys=True, default=str)[:400])
                    print(' fresh', json.dumps(b, sort_keys=True, default=str)[:400])
                    print(' history:')
                    for h in hist[-12:]: print('    ', h)
                    return False
    return True

def run(seed):
    rnd = random.Random(seed)
    c = F.FlowIRConcrete(base(), rnd.choice(PLATS), {})
    hist = []
    for step in range(40):
        ids = sorted(c.get_component_identifiers(True))
        cid = rnd.choice(ids)
        op = rnd.choice(['setvar', 'delvar', 'setopt', 'delopt', 'gvar', 'svar', 'pgvar', 'psvar', 'add', 'del', 'upd', 'query', 'query', 'cfgplat', 'getref'])
        hist.append((op, cid))
        try:
            if op == 'setvar': c.set_component_option(cid, rnd.choice('xyz'), str(step))
            elif op == 'delvar': c.remove_component_option(cid, rnd.choice('xyz'))
            elif op == 'setopt': c.set_component_option(cid, rnd.choice(['#command.arguments', '#command.executable', '#workflowAttributes.maxRestarts', '#command.interpreter']), rnd.choice(['v%d' % step, 'bash', '%(x)s']))
            elif op == 'delopt': c.remove_component_option(cid, rnd.choice(['#command.arguments', '#command.interpreter', '#override']))
            elif op == 'gvar': c.set_global_variable(rnd.choice('gsx'), 'G%d' % step)
            elif op == 'svar': c.set_stage_variable(cid[0], rnd.choice('gsx'), 'S%d' % step)
            elif op == 'pgvar': c.set_platform_global_variable(rnd.choice('gsx'), 'PG%d' % step, rnd.choice(PLATS + [None]))
            elif op == 'psvar': c.set_platform_stage_variable(cid[0], rnd.choice('gsx'), 'PS%d' % step, rnd.choice(PLATS + [None]))
            elif op == 'add':
                n = rnd.choice(NAMES)
                c.add_component({'stage': rnd.choice([0, 1]), 'name': n, 'command': {'executable': 'ls', 'arguments': 'new%d %%(x)s' % step}, 'variables': {'x': 'n'}})
            elif op == 'del': c.delete_component(cid)
            elif op == 'upd':
                new = c.get_component(cid)
                new['command']['arguments'] = 'upd%d' % step
                c.update_component(cid, new)
            elif op == 'query':
                c.get_component_configuration(cid, include_default=True, platform=rnd.choice(PLATS + [None]))
            elif op == 'cfgplat': c.configure_platform(rnd.choice(PLATS))
            elif op == 'getref':
                c.get_component_configuration(cid, include_default=True)
                c.get_component_variables(cid); c.get_platform_variables(rnd.choice(PLATS)); c.get_workflow_variables(); c.instance(ignore_errors=True); c.replicate(ignore_errors=True)
        except Exception as e:
            hist[-1] = hist[-1] + ('raised ' + type(e).__name__,)
        if rnd.random() < 0.5:
            if not check(c, 'seed%d step%d' % (seed, step), hist):
                return False
    return check(c, 'seed%d end' % seed, hist)

bad = 0
for seed in range(int(sys.argv[1]) if len(sys.argv) > 1 else 60):
    if not run(seed):
        bad += 1
        if bad >= 3: break
print('bad', bad)
