import sys, os, json, tempfile, hashlib, logging
logging.disable(logging.CRITICAL)
sys.path.insert(0, '/tmp/wt/H4')
from tests import utils
import experiment.model.frontends.flowir as F

flowir = """
variables:
  default:
    global:
      N: 3
      foo: bar
    stages:
      0:
        sv: zero
      1:
        sv: one
  plat:
    global:
      foo: platbar
environments:
  default:
    envA:
      DEFAULTS: PATH:LD_LIBRARY_PATH
      X: "1"
  plat:
    envA:
      Y: "2"
blueprint:
  default:
    global:
      resourceRequest:
        numberThreads: 2
components:
- name: alpha
  stage: 0
  command:
    executable: echo
    arguments: "%(foo)s %(replica)s"
    environment: envA
  workflowAttributes:
    replicate: "%(N)s"
- name: beta
  stage: 0
  command:
    executable: echo
    arguments: alpha:ref %(sv)s
  references:
    - alpha:ref
- name: gamma
  stage: 0
  command:
    executable: echo
    arguments: beta:ref
  references:
    - beta:ref
- name: agg
  stage: 1
  command:
    executable: echo
    arguments: stage0.gamma:ref stage0.alpha:ref
  references:
    - stage0.gamma:ref
    - stage0.alpha:ref
  workflowAttributes:
    aggregate: true
- name: delta
  stage: 1
  command:
    executable: echo
    arguments: agg:output
  references:
    - agg:output
- name: eps
  stage: 2
  command:
    executable: echo
    arguments: stage1.delta:ref stage1.agg:ref
  references:
    - stage1.delta:ref
    - stage1.agg:ref
- name: zeta
  stage: 2
  command:
    executable: echo
    arguments: hi
"""
out = tempfile.mkdtemp()
plat = sys.argv[1] if len(sys.argv) > 1 else None
exp = utils.experiment_from_flowir(flowir, out, platform=plat, checkExecutables=False)
wg = exp.experimentGraph
conc = wg.configuration.get_flowir_concrete(False)
res = {}
res['components_order'] = [[c['stage'], c['name']] for c in conc.get_components()]
res['graph_nodes'] = list(wg.graph.nodes)
res['graph_edges'] = [list(e) for e in wg.graph.edges]
res['confs'] = {}
res['memo'] = {}
for n in wg.graph.nodes:
    spec = wg.graph.nodes[n]['componentSpecification']
    res['confs'][n] = spec.configuration
    res['memo'][n] = [spec.memoization_hash, spec.memoization_hash_fuzzy]
    res.setdefault('env', {})[n] = spec.environment
inst = os.path.join(exp.instanceDirectory.location, 'conf', 'flowir_instance.yaml')
res['instance_yaml'] = open(inst).read()
txt = json.dumps(res, sort_keys=False, default=str).replace(out, '<OUT>').replace(os.path.basename(exp.instanceDirectory.location), '<INST>')
import re
txt = re.sub(r'[0-9a-f-]{36}\.package', '<PKG>', txt)
txt = re.sub(r'<PKG>|[\w-]+\.instance', '<I>', txt)
print(txt)
