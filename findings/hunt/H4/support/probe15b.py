import warnings; warnings.simplefilter('ignore')
import logging; logging.disable(logging.CRITICAL)
import sys, json, yaml, hashlib
sys.path.insert(0, '/tmp/wt/H4')
import tests.test_dsl as T
import experiment.model.frontends.dsl as D
out = {}
for fx in ['dsl_band_gap_pm3_gamess_us', 'dsl_nested_workflows', 'dsl_two_workflows_one_component_one_step', 'dsl_step_via_param_more_complex', 'dsl_one_workflow_one_component_two_steps_with_edges']:
    f = getattr(T, fx)
    f = getattr(f, '__wrapped__', None) or f.__pytest_wrapped__.obj
    doc = f()
    ns = D.Namespace(**doc)
    c = D.namespace_to_flowir(ns)
    out[fx] = json.dumps(c.raw(), default=str)   # order sensitive
    out[fx+'_sorted'] = json.dumps(c.raw(), default=str, sort_keys=True)
    out[fx+'_repl'] = json.dumps(c.replicate(), default=str, sort_keys=True)
for k in sorted(out): print(k, hashlib.md5(out[k].encode()).hexdigest())
