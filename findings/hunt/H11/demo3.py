#!/usr/bin/env python
"""demo3 - local backend: the exit reason of a task that dies from a signal is lost (and kill() does not reach the
program), so the controller takes the wrong decision.

LocalTaskGenerator starts every task as  LocalTask(commandLine, shell=True)  i.e.  /bin/sh -c "<command line>".
LocalTask.exitReason maps Popen's NEGATIVE return codes (-9 Killed, -2/-15 Cancelled, -24 ResourceExhausted); these
are only produced when the direct child (the shell) dies from the signal.  With a /bin/sh that forks the command
(dash, the /bin/sh of Debian/Ubuntu; any sh for `a && b`, pipes, ...) the PROGRAM dies from the signal, the shell
exits with 128+N and LocalTask reports KnownIssue.  Likewise LocalTask.kill()/terminate() signals only the shell.

Consequences for the controller (property C12: restart policy):
  * a task that exhausts its CPU limit (SIGXCPU) is ResourceExhausted, which is restartable by default
    (restartHookOn defaults to [ResourceExhausted]); it is seen as KnownIssue and the component is FAILED instead of
    being restarted -> the stage fails;
  * a task killed with SIGKILL/SIGTERM (OOM killer, operator, scheduler) is seen as KnownIssue, so a component that
    lists KnownIssue in restartHookOn restarts "after a killed or cancelled task", which the policy forbids;
  * after Engine.kill() the component reaches its final state while the program keeps running.

Part 1 runs a one-component workflow through Controller.run(); part 2 checks LocalTask directly.
Exits 1 when the defect is present (it is environment dependent: it needs a /bin/sh that does not exec the command).
"""
import logging
import os
import signal
import subprocess
import sys
import tempfile
import time

HERE = os.path.dirname(os.path.abspath(__file__))
ROOT = os.path.dirname(HERE)
sys.path.insert(0, os.path.join(ROOT, 'python'))
sys.path.insert(0, ROOT)
logging.disable(logging.CRITICAL)

import experiment.model.codes
import experiment.runtime.backend_interfaces.localtask as localtask
from tests.utils import generate_controller_for_flowir

problems = []
codes = experiment.model.codes

# ---------------------------------------------------------------- part 1: what the controller decides
out = tempfile.mkdtemp(prefix='demo3_')
marker = os.path.join(out, 'launches.txt')
script = os.path.join(out, 'task.py')
with open(script, 'w') as f:
    f.write('''
import sys, os, signal, time
marker = sys.argv[1]
n = len(open(marker).readlines()) if os.path.exists(marker) else 0
open(marker, 'a').write("%d\\n" % n)
if n == 0:
    # what the kernel does to a process that exceeds RLIMIT_CPU
    os.kill(os.getpid(), signal.SIGXCPU)
    time.sleep(5)
sys.exit(0)
''')
flowir = """
components:
- name: sim
  stage: 0
  command:
    executable: %s
    arguments: %s %s
""" % (sys.executable, script, marker)
ctrl = generate_controller_for_flowir(flowir, out)
comp = ctrl.get_compstate('stage0.sim')
print("restartHookOn of stage0.sim (default): %s" % comp.specification.workflowAttributes['restartHookOn'])
t0 = time.time()
try:
    ctrl.run()
    verdict = "returned normally"
except BaseException as e:
    verdict = "raised %s" % type(e).__name__
launches = len(open(marker).readlines())
print("%.0fs Controller.run() %s; stage0.sim: state=%s engine exit reason=%s launches=%d restarts=%d" % (
    time.time() - t0, verdict, comp.state, comp.engine.exitReason(), launches, comp.engine.restarts))
if comp.state != codes.FINISHED_STATE or launches != 2:
    problems.append("a task that died from SIGXCPU (ResourceExhausted, restartable by default) was reported as %s: "
                    "the component is %s after %d launch(es) and run() %s - expected one restart and FINISHED" % (
                        comp.engine.exitReason(), comp.state, launches, verdict))
ctrl.cleanUp()

# ---------------------------------------------------------------- part 2: LocalTask alone
print("/bin/sh is %s" % os.path.realpath('/bin/sh'))


def children(pid):
    return [int(x) for x in subprocess.run(['pgrep', '-P', str(pid)], capture_output=True, text=True).stdout.split()]


expected = {signal.SIGKILL: 'Killed', signal.SIGTERM: 'Cancelled', signal.SIGXCPU: 'ResourceExhausted'}
for sig, want in expected.items():
    t = localtask.LocalTask("sleep 30", shell=True)
    time.sleep(0.3)
    kids = children(t.pid)
    os.kill(kids[0] if kids else t.pid, sig)
    t.wait()
    print("program 'sleep 30' received %-8s -> returncode %4s exitReason %s" % (sig.name, t.returncode, t.exitReason))
    if t.exitReason != codes.exitReasons[want]:
        problems.append("program killed by %s: LocalTask.exitReason is %s, should be %s" % (
            sig.name, t.exitReason, want))

t = localtask.LocalTask("sleep 30", shell=True)
time.sleep(0.3)
kids = children(t.pid)
t.kill()
t.wait()
time.sleep(0.3)
alive = [k for k in kids if os.path.exists('/proc/%d' % k)]
print("LocalTask.kill(): returncode %s exitReason %s; program still running: %s" % (t.returncode, t.exitReason, alive))
if alive:
    problems.append("after LocalTask.kill() the task reports %s but its program (pid %s) is still running: a component "
                    "that is stopped reaches its final state while its program goes on" % (t.exitReason, alive))
    for k in alive:
        os.kill(k, 9)

if problems:
    print("\nDEFECT CONFIRMED:")
    for p in problems:
        print(" - " + p)
    sys.stdout.flush()
    os._exit(1)
print("no problem observed")
sys.stdout.flush()
os._exit(0)
