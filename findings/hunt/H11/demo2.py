#!/usr/bin/env python
"""demo2 - an instance that uses a :link (or a directory :copy) reference cannot be restarted: staging the reference
a second time raises DataReferenceCouldNotStageError, which is not one of the errors Controller.run() /
finalize_submit_components() know how to turn into a component state, so it escapes run() as a raw exception.

StageReference() does os.symlink(reference, dest) / shutil.copytree(reference, dest) with no regard for what a
previous run of the same instance left in the working directory.  On a restart from stage N only stage N itself is
exempt from staging (do_stage_data[N] = --restageData, default No); every later stage is staged again
(elaunch.py: do_stage_data[s] = True for s != startStage).  Hence:
   elaunch --restart 1                   -> components of stage 2 that were staged by the first run: FileExistsError
   elaunch --restart 2 --restageData yes -> same thing for stage 2 itself
The component whose stage-in failed gets no FAILED state, no UnexpectedJobFailureError/StageFailedError is produced
(continue-on-error cannot apply); run() ends with an exception while components are still running.

Exits 1 when the defect is present.
"""
import os
import subprocess
import sys
import tempfile

HERE = os.path.dirname(os.path.abspath(__file__))
ROOT = os.path.dirname(HERE)

FLOWIR = """
components:
- name: A
  stage: 0
  command:
    executable: echo
    arguments: hello
- name: B
  stage: 1
  references:
  - stage0.A:ref
  command:
    executable: ls
    arguments: stage0.A:ref
- name: C
  stage: 2
  references:
  - stage1.B:link
  command:
    executable: ls
    arguments: B
- name: D
  stage: 2
  command:
    executable: sleep
    arguments: "3"
"""


def elaunch(args, cwd, log):
    env = dict(os.environ)
    env['PYTHONPATH'] = os.path.join(ROOT, 'python')
    with open(log, 'w') as f:
        return subprocess.call([sys.executable, '-W', 'ignore', os.path.join(ROOT, 'scripts', 'elaunch.py')] + args,
                               cwd=cwd, env=env, stdout=f, stderr=subprocess.STDOUT, timeout=100)


def status(instance):
    ret = {}
    for line in open(os.path.join(instance, 'output', 'status.txt')):
        if '=' in line:
            k, v = line.strip().split('=', 1)
            ret[k] = v
    return ret


def main():
    problems = []
    work = tempfile.mkdtemp(prefix='demo2_')
    conf = os.path.join(work, 'pkg.package', 'conf')
    os.makedirs(conf)
    with open(os.path.join(conf, 'flowir_package.yaml'), 'w') as f:
        f.write(FLOWIR)

    rc = elaunch(['-l', '30', '--nostamp', 'pkg.package'], work, os.path.join(work, 'run1.log'))
    instance = os.path.join(work, 'pkg.instance')
    st = status(instance)
    print("first run: exit code %s exit-status=%s" % (rc, st.get('exit-status')))
    if rc != 0:
        print("UNEXPECTED: plain run failed, see %s" % work)
        return 2

    for label, args in (('--restart 1', ['--restart', '1']),
                        ('--restart 2 --restageData yes', ['--restart', '2', '--restageData', 'yes'])):
        log = os.path.join(work, 'restart%s.log' % args[1])
        rc = elaunch(['-l', '30'] + args + [instance], work, log)
        text = open(log).read()
        st = status(instance)
        could_not = 'DataReferenceCouldNotStageError: Could not stage reference stage1.B:link' in text
        unexpected = 'Unexpected exception reached top level' in st.get('error-description', '')
        first_schedule = 'in run\n    self._schedule(migrated_components=set(matchedComponents))' in text
        stage_failed = 'StageFailedError' in text
        print("%-32s: exit code %s exit-status=%s; DataReferenceCouldNotStageError=%s reached top level as "
              "'unexpected exception'=%s StageFailedError=%s" % (
                  label, rc, st.get('exit-status'), could_not, unexpected, stage_failed))
        if could_not:
            line = [l for l in text.splitlines() if 'FileExistsError' in l][:1]
            problems.append("elaunch %s of a healthy instance fails: %s" % (label, line[0] if line else ''))
        if could_not and unexpected and not stage_failed:
            problems.append("   ... and the error is not handled: it leaves Controller.run() as a raw "
                            "DataReferenceCouldNotStageError (status: 'Unexpected exception reached top level'), no "
                            "component is FAILED, no StageFailedError%s" % (
                                "; raised by the first _schedule() of run(), i.e. without handleError(): the other "
                                "components of the stage are still RUNNING when run() exits" if first_schedule else ''))

    if problems:
        print("\nDEFECT CONFIRMED:")
        for p in problems:
            print(" - " + p)
        return 1
    print("no problem observed")
    return 0


if __name__ == '__main__':
    rc = main()
    sys.stdout.flush()
    os._exit(rc)
