#!/usr/bin/env python
"""demo4 - the clean-up that elaunch.py performs after Controller.run() (Controller.cleanUp() followed by waiting on
Controller.workflowIsComplete) breaks in two ordinary situations.

A) `elaunch.py --restart N` (N >= 1) always crashes in its `finally:` block.
   Controller.workflowIsComplete builds `component.combinedStateUpdates` for EVERY node of the graph.  On a restart
   from stage N the components of the stages before N are created without an engine
   (ComponentState(..., create_engine=False)), so `self.engine.stateUpdates` is an attribute access on None.  The
   AttributeError aborts the rest of the clean-up: status database not closed, final status never written
   (experiment-state stays "running"), no consolidation, exit code 1 although every component finished.

B) elaunch.py hangs for ever when anything fails between the creation of the Controller and the first
   Controller.initialise() (e.g. a malformed `-m label:value` option, a forbidden metadata key, an unreadable
   --metadata file, a signal).  cleanUp() -> kill_all_components() -> _fake_finish_with_state() dereferences
   self.statusDatabase, which is still None; the AttributeError is swallowed ("marking it as done") and
   ComponentState.finish() is never called, so no component ever reaches a final state and the un-timed
   `controller_join.wait()` on workflowIsComplete never returns.

Exits 1 when a defect is present.
"""
import os
import subprocess
import sys
import tempfile
import threading

HERE = os.path.dirname(os.path.abspath(__file__))
ROOT = os.path.dirname(HERE)
sys.path.insert(0, os.path.join(ROOT, 'python'))
sys.path.insert(0, ROOT)

FLOWIR = """
components:
- name: A
  stage: 0
  command:
    executable: echo
    arguments: hello
- name: C
  stage: 1
  references:
  - stage0.A:ref
  command:
    executable: ls
    arguments: stage0.A:ref
"""


def elaunch(args, cwd, log, timeout=100):
    env = dict(os.environ)
    env['PYTHONPATH'] = os.path.join(ROOT, 'python')
    with open(log, 'w') as f:
        p = subprocess.Popen([sys.executable, '-W', 'ignore', os.path.join(ROOT, 'scripts', 'elaunch.py')] + args,
                             cwd=cwd, env=env, stdout=f, stderr=subprocess.STDOUT)
        try:
            return p.wait(timeout)
        except subprocess.TimeoutExpired:
            p.kill()
            p.wait()
            return 'TIMEOUT'


def status(instance):
    ret = {}
    for line in open(os.path.join(instance, 'output', 'status.txt')):
        if '=' in line:
            k, v = line.strip().split('=', 1)
            ret[k] = v
    return ret


def main():
    problems = []
    work = tempfile.mkdtemp(prefix='demo4_')
    conf = os.path.join(work, 'pkg.package', 'conf')
    os.makedirs(conf)
    with open(os.path.join(conf, 'flowir_package.yaml'), 'w') as f:
        f.write(FLOWIR)

    # ------------------------------------------------------------------ A
    rc1 = elaunch(['-l', '30', '--nostamp', 'pkg.package'], work, os.path.join(work, 'run1.log'))
    instance = os.path.join(work, 'pkg.instance')
    st1 = status(instance)
    print("A) first run  : exit code %s, exit-status=%s experiment-state=%s" % (
        rc1, st1.get('exit-status'), st1.get('experiment-state')))
    if rc1 != 0 or st1.get('experiment-state') != 'finished':
        print("UNEXPECTED: the plain run did not succeed, cannot demonstrate (see %s)" % work)
        return 2

    rc2 = elaunch(['-l', '30', '--restart', '1', instance], work, os.path.join(work, 'run2.log'))
    st2 = status(instance)
    log2 = open(os.path.join(work, 'run2.log')).read()
    print("A) restart run: exit code %s, exit-status=%s experiment-state=%s completed-on=%s (first run: %s)" % (
        rc2, st2.get('exit-status'), st2.get('experiment-state'), st2.get('completed-on'), st1.get('completed-on')))

    if rc2 != 0:
        problems.append("A) elaunch --restart 1 exited with %s although stage 1 ran to completion" % rc2)
    if "AttributeError: 'NoneType' object has no attribute 'stateUpdates'" in log2:
        tb = log2[log2.rfind('Traceback (most recent call last)'):]
        problems.append("A) clean-up aborted by:\n" + '\n'.join(tb.splitlines()[:12]))
    if st2.get('experiment-state') != 'finished':
        problems.append("A) status.txt was never finalised: experiment-state=%s" % st2.get('experiment-state'))
    if 'Clean-up - Clean-up complete' not in log2:
        problems.append("A) the clean-up of elaunch did not reach 'Clean-up complete' "
                        "(status database not closed, no consolidation)")

    # ------------------------------------------------------------------ B
    work_b = os.path.join(work, 'b')
    os.makedirs(work_b)
    os.symlink(os.path.join(work, 'pkg.package'), os.path.join(work_b, 'pkg.package'))
    rc3 = elaunch(['-l', '30', '--nostamp', '-m', 'entry-without-colon', 'pkg.package'], work_b,
                  os.path.join(work_b, 'run.log'), timeout=25)
    log3 = open(os.path.join(work_b, 'run.log')).read()
    print("B) elaunch -m entry-without-colon: %s after 25s; 'Invalid metadata entries' raised: %s; "
          "waiting for components: %s" % (
              'STILL RUNNING (killed by the demo)' if rc3 == 'TIMEOUT' else 'exit code %s' % rc3,
              'Invalid metadata entries' in log3, 'Waiting for all components to terminate' in log3))
    if rc3 == 'TIMEOUT':
        problems.append("B) elaunch with an invalid -m option does not exit: it hangs in its clean-up "
                        "(last lines of its log: %s)" % [l[-90:] for l in log3.splitlines() if 'Clean-up' in l
                                                         or 'marking it as done' in l][-3:])

    # The same two things on the controller alone
    import logging
    logging.disable(logging.CRITICAL)
    from tests.utils import generate_controller_for_flowir, experiment_from_flowir, new_controller
    ctrl = generate_controller_for_flowir(FLOWIR, tempfile.mkdtemp(prefix='demo4c_'), initial_stage=1)
    try:
        ctrl.workflowIsComplete
    except AttributeError as e:
        problems.append("A) Controller(initial stage 1).workflowIsComplete raises AttributeError: %s" % e)

    exp = experiment_from_flowir(FLOWIR, tempfile.mkdtemp(prefix='demo4d_'))
    ctrl, comps = new_controller(exp)
    ctrl.cleanUp()
    ev = threading.Event()
    ctrl.workflowIsComplete.subscribe(on_completed=lambda: ev.set(), on_error=lambda e: ev.set())
    if not ev.wait(12):
        problems.append("B) Controller.cleanUp() before initialise(): 12s later workflowIsComplete has not completed; "
                        "states: %s, comp_done=%s" % (
                            {n: ctrl.get_compstate(n).state for n in ctrl.graph.nodes}, sorted(ctrl.comp_done)))

    if problems:
        print("\nDEFECT CONFIRMED:")
        for p in problems:
            print(" - " + p)
        return 1
    print("no problem observed")
    return 0


if __name__ == '__main__':
    rc = main()
    sys.stdout.flush()
    os._exit(rc)
