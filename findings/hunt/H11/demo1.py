#!/usr/bin/env python
"""demo1 - a component that is stopped while its restart hook is executing gets its task launched AGAIN after it
has received its final state (and after Controller.run() returned); nobody supervises or kills that task.

ComponentState.restart() checks `engine.isShutdown` once, BEFORE Engine.restart() runs the (arbitrarily long)
restart hook.  While the hook executes the engine is dead, so a stop (ComponentState.finish(SHUTDOWN), issued by
kill_all_components()/_stopComponents()/cleanUp(): failure of a sibling, stage-completion hook, SIGINT/SIGTERM to
elaunch ...) takes the synchronous branch: controllerState = SHUTDOWN, engine.shutdown().  When the hook returns,
Engine.restart() never looks at `self._shutdown` again: it clears the exit reason and calls self.run().

Scenario: one component whose first execution exits 1 (KnownIssue, listed in restartHookOn), a restart hook that takes
4 seconds and answers "restart possible"; the controller is asked to stop (killController, what elaunch does on a
signal) one second after the hook started.
Exits 1 when a task launch is observed after the component reached its final state.
"""
import logging
import os
import sys
import tempfile
import threading
import time

HERE = os.path.dirname(os.path.abspath(__file__))
ROOT = os.path.dirname(HERE)
sys.path.insert(0, os.path.join(ROOT, 'python'))
sys.path.insert(0, ROOT)
logging.disable(logging.CRITICAL)

import experiment.model.codes
import experiment.runtime.control
from tests.utils import generate_controller_for_flowir

out = tempfile.mkdtemp(prefix='demo1_')
marker = os.path.join(out, 'launches.txt')
script = os.path.join(out, 'task.py')
with open(script, 'w') as f:
    f.write('''
import sys, time, os
marker = sys.argv[1]
n = len(open(marker).readlines()) if os.path.exists(marker) else 0
open(marker, 'a').write("%d %d %f\\n" % (n, os.getpid(), time.time()))
if n == 0:
    sys.exit(1)     # first execution: KnownIssue
time.sleep(15)      # a relaunched task would run for a while
''')

flowir = """
components:
- name: Y
  stage: 0
  workflowAttributes:
    restartHookOn:
    - KnownIssue
  command:
    executable: %s
    arguments: %s %s
""" % (sys.executable, script, marker)

hook = '''
import time, os
import experiment.model.codes
def Restart(workingDirectory, restarts, componentName, log, exitReason, exitCode):
    open(os.path.join(workingDirectory, 'hook_started'), 'w').write('x')
    time.sleep(4)      # e.g. rewriting restart files of a simulation
    return experiment.model.codes.restartContexts["RestartContextRestartPossible"]
'''

ctrl = generate_controller_for_flowir(flowir, out, extra_files={'hooks/__init__.py': '', 'hooks/restart.py': hook})
Y = ctrl.get_compstate('stage0.Y')
wd = Y.specification.workingDirectory.path
t0 = time.time()


def stopper():
    while not os.path.exists(os.path.join(wd, 'hook_started')):
        time.sleep(0.05)
    time.sleep(1)
    print("%5.1fs restart hook is running (component state: %s) -> killController()" % (time.time() - t0, Y.state))
    ctrl.killController("stop requested")


threading.Thread(target=stopper, daemon=True).start()
try:
    ctrl.run()
    print("%5.1fs Controller.run() returned" % (time.time() - t0))
except BaseException as e:
    print("%5.1fs Controller.run() raised %s" % (time.time() - t0, type(e).__name__))
final_state_at = time.time()
state_after_run = Y.state
print("%5.1fs state of stage0.Y after run(): %s (engine.isShutdown=%s)" % (
    time.time() - t0, state_after_run, Y.engine.isShutdown))
ctrl.cleanUp()
ev = threading.Event()
ctrl.workflowIsComplete.subscribe(on_completed=lambda: ev.set(), on_error=lambda e: ev.set())
done = ev.wait(30)
print("%5.1fs cleanUp() done, workflowIsComplete completed: %s  (elaunch would now write the final status and exit)"
      % (time.time() - t0, done))

time.sleep(10)
launches = [l.split() for l in open(marker).read().splitlines()]
late = [l for l in launches if float(l[2]) > final_state_at]
proc = Y.engine.process
print("%5.1fs launches of the task: %s" % (time.time() - t0, [
    "#%s at %.1fs" % (l[0], float(l[2]) - t0) for l in launches]))
problems = []
if state_after_run not in (experiment.model.codes.SHUTDOWN_STATE, experiment.model.codes.FAILED_STATE,
                           experiment.model.codes.FINISHED_STATE):
    problems.append("component was not in a final state after run(): %s" % state_after_run)
if late:
    problems.append("the task of stage0.Y was launched %.1fs AFTER the component received its final state %s "
                    "and run() had returned" % (float(late[0][2]) - final_state_at, state_after_run))
if proc is not None and proc.isAlive():
    problems.append("that task (pid %s) is still running now; component state %s, engine.isAlive()=%s, "
                    "engine.isShutdown=%s: nothing will ever stop or report it" % (
                        late[0][1] if late else '?', Y.state, Y.engine.isAlive(), Y.engine.isShutdown))
    try:
        proc.kill()
        os.kill(int(late[0][1]), 9)
    except Exception:
        pass

if problems:
    print("\nDEFECT CONFIRMED:")
    for p in problems:
        print(" - " + p)
    sys.stdout.flush()
    os._exit(1)
print("no problem observed")
sys.stdout.flush()
os._exit(0)
