#!/usr/bin/env python
"""Confirmed defects that do not map onto C05/C07/C08/C15 (see "Other confirmed defects" in findings.md).

Run:  cd /tmp/wt/H12 && PYTHONPATH=/tmp/wt/H12/python /venv/bin/python HUNT/extra_checks.py
"""
import logging
import os
import sys
import tempfile
import uuid

logging.disable(logging.CRITICAL)

import experiment.model.data
import experiment.model.storage
from experiment.model.frontends.flowir import FlowIR

problems = []

# X1: FlowIR._expand_array_access continues the scan at an offset of the string it has just replaced
d = tempfile.mkdtemp()
names = os.path.join(d, 'names.txt')
with open(names, 'w') as f:
    f.write("alpha\nbeta\ngamma\n")
got = FlowIR.interpolate("--a %s[2] --b %s[0]" % (names, names), {})
want = "--a gamma --b alpha"
print('X1 two file accesses :', repr(got.replace(d, 'D')), 'expected', repr(want))
if got != want:
    problems.append('X1')
got = FlowIR.interpolate("a b c[0] d e[1]", {})
again = FlowIR.interpolate(got, {})
print('X1 not idempotent    :', repr(got), 'then', repr(again))
if got != again:
    problems.append('X1b')
numbers = os.path.join(d, 'box.yaml')
with open(numbers, 'w') as f:
    f.write("[10, 20, 30]\n")
try:
    print('X1 yaml of numbers   :', FlowIR.interpolate("-x %s[0]" % numbers, {}))
except TypeError as e:
    print('X1 yaml of numbers   : TypeError', e)
    problems.append('X1c')


def load(flowir):
    location = tempfile.mkdtemp()
    package_path = os.path.join(location, '%s.package' % uuid.uuid4())
    os.makedirs(os.path.join(package_path, 'conf'))
    with open(os.path.join(package_path, 'conf', 'flowir_package.yaml'), 'w') as f:
        f.write(flowir)
    pkg = experiment.model.storage.ExperimentPackage.packageFromLocation(package_path)
    exp = experiment.model.data.Experiment.experimentFromPackage(pkg, location=location)
    exp.validateExperiment(checkExecutables=False)
    return exp


# X2: workflowAttributes.aggregate given as text or through a variable is always True
exp = load("""
variables: {default: {global: {agg: "false"}}}
components:
- name: sim
  stage: 0
  workflowAttributes: {replicate: 2}
  command: {executable: echo, arguments: "%(replica)s"}
- name: post
  stage: 0
  workflowAttributes: {aggregate: "%(agg)s"}
  references: ["sim:ref"]
  command: {executable: echo, arguments: "sim:ref"}
""")
nodes = sorted(exp.experimentGraph.graph.nodes)
print('X2 aggregate "%(agg)s" with agg=false ->', nodes)
if 'stage0.post' in nodes:
    problems.append('X2')

# X3: the schema allows a variable in a numeric field of a blueprint, the loader rejects the package
try:
    load("""
variables: {default: {global: {n: 2}}}
blueprint: {default: {global: {resourceRequest: {numberThreads: "%(n)s"}}}}
components:
- name: one
  stage: 0
  command: {executable: echo, arguments: hi}
""")
    print('X3 blueprint variable: loaded')
except Exception as e:
    print('X3 blueprint variable: rejected:', str(e).split('Errors:')[-1].strip()[:160])
    problems.append('X3')

print('confirmed:', problems)
sys.exit(1 if problems else 0)
