import random, sys, yaml, shutil
from harness import *

def gen(rng):
    plats = ['default'] + rng.sample(['p1', 'global', 'stages', 'x-1'], rng.randint(0, 2))
    varnames = ['v%d' % i for i in range(6)]
    def val(i, allow_ref=True):
        k = rng.random()
        higher = varnames[i+1:]
        if allow_ref and higher and k < 0.35:
            return rng.choice(['%%(%s)s-x', 'pre %%(%s)s', '%%(%s)s']) % rng.choice(higher)
        if i < 4 and allow_ref and k < 0.45:
            return '%%(%s)s[%d]' % (rng.choice(['v4','v5']), rng.randint(0, 1))
        if k < 0.55: return rng.randint(0, 5)
        if k < 0.6: return rng.choice([True, False])
        if k < 0.65: return rng.choice([0.5, 1e-7, 2.0])
        if k < 0.8: return rng.choice(['a b c', 'x y', 'one two three'])
        return rng.choice(['lit', 'foo', '007', 'yes', 'null', '1:30', ' sp ', ''])
    def scope(p=0.5):
        out = {}
        for i, n in enumerate(varnames):
            if rng.random() < p:
                out[n] = val(i) if i < 4 else rng.choice(['a b c', 'x y', 'one two three', 'k l'])
        return out
    nstages = rng.randint(1, 2)
    variables = {}
    for p in plats:
        variables[p] = {'global': scope(0.6 if p == 'default' else 0.3),
                        'stages': {s: scope(0.2) for s in range(nstages) if rng.random() < 0.6}}
    # make sure all var names exist globally in default (so references resolve)
    for i, n in enumerate(varnames):
        variables['default']['global'].setdefault(n, rng.choice(['a b c', 'q r', 'zz yy xx']))
    N = rng.choice([1, 2, 3])
    variables['default']['global']['n'] = N
    def bp():
        out = {}
        if rng.random() < 0.5: out.setdefault('resourceManager', {})['config'] = {'walltime': rng.choice([10, 20.5])}
        if rng.random() < 0.4: out.setdefault('workflowAttributes', {})['maxRestarts'] = rng.choice([1, 2])
        if rng.random() < 0.4: out.setdefault('resourceRequest', {})['numberThreads'] = rng.choice([1, 2])
        if rng.random() < 0.3: out.setdefault('command', {})['environment'] = rng.choice(['env1', 'env2'])
        return out
    blueprint = {}
    for p in plats:
        if rng.random() < 0.6:
            blueprint[p] = {'global': bp(), 'stages': {s: bp() for s in range(nstages) if rng.random() < 0.4}}
    envs = {}
    for p in plats:
        if p == 'default' or rng.random() < 0.5:
            envs[p] = {}
            for en in ['env1', 'env2']:
                if p == 'default' or rng.random() < 0.5:
                    envs[p][en] = {k: rng.choice(['%(v0)s', '$B:/x', 'lit', '%(v3)s/bin', 1]) for k in rng.sample(['A', 'B', 'C'], rng.randint(1, 3))}
    names = ['c', 'c1', 'sim', 'sim2', 'agg', 'post', 'a10']
    comps = []
    prev = []
    for s in range(nstages):
        for name in rng.sample(names, rng.randint(1, 3)):
            c = {'name': name, 'stage': s, 'command': {'executable': 'echo'}}
            args = [rng.choice(['%(v0)s', '%(v1)s', '-x %(v2)s', 'lit', '%(v4)s[0]', '%(v5)s[%(v3)s]' if False else '%(v5)s[1]'])]
            cv = scope(0.25)
            if cv: c['variables'] = cv
            refs = []
            for (ps, pn) in rng.sample(prev, min(len(prev), rng.randint(0, 2))):
                r = ('stage%d.%s' % (ps, pn)) if (ps != s or rng.random() < 0.5) else pn
                r += rng.choice(['', '/out.txt']) + ':' + rng.choice(['ref', 'copy'])
                refs.append(r)
                if r.endswith(':ref'): args.append(r)
            if refs: c['references'] = refs
            wa = {}
            if refs and rng.random() < 0.3: wa['aggregate'] = True
            elif rng.random() < 0.35: wa['replicate'] = rng.choice([N, N, '%(n)s', 0] if not refs else [N, '%(n)s'])
            if wa: c['workflowAttributes'] = wa
            if 'replicate' in wa and wa['replicate'] != 0 and rng.random() < 0.7: args.append('%(replica)s')
            c['command']['arguments'] = ' '.join(args)
            if len(plats) > 1 and rng.random() < 0.4:
                p = rng.choice(plats[1:])
                ov = {}
                if rng.random() < 0.6: ov['variables'] = scope(0.3)
                if rng.random() < 0.4: ov['command'] = {'arguments': c['command']['arguments'] + ' -ov'}
                if rng.random() < 0.3: ov['resourceRequest'] = {'numberThreads': 3}
                if ov: c['override'] = {p: ov}
            comps.append(c)
            prev.append((s, name))
    doc = {'variables': variables, 'blueprint': blueprint, 'environments': envs, 'components': comps, 'platforms': plats}
    return doc, rng.choice(plats)

def dump2(exp):
    out = dump(exp)
    g = exp.experimentGraph
    for n in list(out):
        if n == '__edges__': continue
        try:
            out[n]['env'] = g.environmentForNode(n)
        except Exception as e:
            out[n]['env'] = 'EXC %s' % type(e).__name__
        for k in list(out[n]['env']) if isinstance(out[n]['env'], dict) else []:
            if k in ('INSTANCE_DIR', 'FLOW_EXPERIMENT_NAME', 'FLOW_RUN_ID'): del out[n]['env'][k]
    return out

if __name__ == '__main__':
    start, count = int(sys.argv[1]), int(sys.argv[2])
    for seed in range(start, start + count):
        rng = random.Random(seed)
        doc, plat = gen(rng)
        d = tempfile.mkdtemp()
        try:
            try:
                e = load_pkg(yaml.safe_dump(doc), d, platform=plat)
            except BaseException as ex:
                print(seed, 'LOADFAIL', type(ex).__name__, str(ex).replace('\n', ' ')[:1500]); continue
            a = dump2(e)
            inst = e.instanceDirectory.location + '/conf/flowir_instance.yaml'
            f1 = open(inst).read()
            try:
                e2 = reload(e, plat)
            except BaseException as ex:
                print(seed, 'RELOADFAIL', plat, type(ex).__name__, str(ex).replace('\n', ' ')[:600]); continue
            b = dump2(e2)
            f2 = open(inst).read()
            if a != b:
                print(seed, 'CONFDIFF plat=%s' % plat)
                for k in sorted(set(a) | set(b)):
                    if a.get(k) != b.get(k):
                        if isinstance(a.get(k), dict) and isinstance(b.get(k), dict):
                            for kk in a[k]:
                                if a[k][kk] != b[k].get(kk): print('   ', k, kk, a[k][kk], '|||', b[k].get(kk))
                        else: print('   ', k, a.get(k), '|||', b.get(k))
            elif f1 != f2:
                print(seed, 'FILEDIFF plat=%s' % plat)
                import difflib
                print(''.join(list(difflib.unified_diff(f1.splitlines(1), f2.splitlines(1)))[:30]))
            else:
                print(seed, 'ok', len(a))
        finally:
            shutil.rmtree(d, ignore_errors=True)
