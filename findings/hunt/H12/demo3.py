#!/usr/bin/env python
"""demo3 - memoization hash is computed from the executable of ANOTHER component when the name ends in a digit.

Run:  cd /tmp/wt/H12 && PYTHONPATH=/tmp/wt/H12/python /venv/bin/python HUNT/demo3.py

ComponentSpecification._compute_memoization_info() (python/experiment/model/graph.py:1466-1475) finds the definition
of "the component before replication" with

    blueprint_name = self.identification.componentName.rstrip('0123456789')

i.e. it strips *every* trailing digit of the name, whether or not the component is a replica. For a component that is
called `step2` it looks up `step`:

  * `step` exists  -> the executable of `step` goes into the memoization information of `step2`. Two components with
                      different executables and equal arguments get the SAME memoization hash, so the outputs of one
                      are accepted as the outputs of the other; editing `step` changes the hash of `step2`.
  * `step` missing -> FlowIRComponentUnknown is swallowed, memoization_info is None: the component (and every replica
                      `run20`, `run21` of a component called `run2`) can never be memoized.

The hash of a component is therefore not a function of the component's own resolved configuration (the configuration
and the graph that C07/C15 compare are right, the hash that C15 lists next to them is not).
"""
import logging
import os
import sys
import tempfile
import uuid

logging.disable(logging.CRITICAL)

import experiment.model.data
import experiment.model.storage

PACKAGE = """
components:
- name: step
  stage: 0
  command: {executable: /bin/echo, arguments: "data.txt", resolvePath: false}
- name: step2
  stage: 0
  command: {executable: /bin/rm, arguments: "data.txt", resolvePath: false}
- name: run2
  stage: 0
  workflowAttributes: {replicate: 2}
  command: {executable: /bin/cat, arguments: "part%(replica)s", resolvePath: false}
- name: alone
  stage: 0
  command: {executable: /bin/cat, arguments: "x", resolvePath: false}
"""


def load(flowir, location):
    package_path = os.path.join(location, '%s.package' % uuid.uuid4())
    os.makedirs(os.path.join(package_path, 'conf'))
    with open(os.path.join(package_path, 'conf', 'flowir_package.yaml'), 'w') as f:
        f.write(flowir)
    pkg = experiment.model.storage.ExperimentPackage.packageFromLocation(package_path)
    exp = experiment.model.data.Experiment.experimentFromPackage(pkg, location=location)
    exp.validateExperiment(checkExecutables=False)
    return exp


if __name__ == '__main__':
    exp = load(PACKAGE, tempfile.mkdtemp())
    graph = exp.experimentGraph
    info = {}
    for name in sorted(graph.graph.nodes):
        spec = graph.graph.nodes[name]['componentSpecification']
        runs = graph.configurationForNode(name)['command']['executable']
        info[name] = (runs, spec.memoization_info, spec.memoization_hash)
        print('%-13s runs %-10s memoization_info=%s hash=%s' % (name, runs, info[name][1], info[name][2]))

    problems = []
    runs, memo, digest = info['stage0.step2']
    if memo is not None and memo['command']['executable'] != runs:
        problems.append('stage0.step2 runs %s but its memoization information says %s' % (
            runs, memo['command']['executable']))
    if digest is not None and digest == info['stage0.step'][2]:
        problems.append('stage0.step (%s) and stage0.step2 (%s) have the same memoization hash %s' % (
            info['stage0.step'][0], runs, digest))
    if info['stage0.alone'][2] is None:
        problems.append('the control component stage0.alone has no memoization hash (the demo is broken)')
    for replica in ('stage0.run20', 'stage0.run21'):
        if info[replica][2] is None:
            problems.append('%s (replica of run2) can never be memoized: memoization_info is None' % replica)

    for p in problems:
        print('WRONG: %s' % p)
    if problems:
        print('\nFAIL: the memoization hash of a component whose name ends in a digit is not computed from its own '
              'definition')
        sys.exit(1)
    print('ok')
