#!/usr/bin/env python
"""demo2 - C08: a query that overlaps an update leaves a stale configuration in the cache for good.

Run:  cd /tmp/wt/H12 && PYTHONPATH=/tmp/wt/H12/python /venv/bin/python HUNT/demo2.py

FlowIRConcrete.get_component_configuration() is check-then-act without a lock:

    if self._cache.in_cache(label): return self._cache[label]     (1) check, then a separate lookup
    component = self.get_component(comp_id)                       (2) reads the description
    ... layering, interpolation, type conversion ...
    self._cache[label] = deep_copy(ret)                           (3) publishes what was read at (2)

and the mutators invalidate the cache *before* they change the description
(set_component_option -> get_component(return_copy=False) invalidates and returns the live dictionary, the caller
assigns afterwards). The runtime calls both from several threads (engines/ComponentState call configurationForNode,
Job.setOption / checkExecutable / the task simulator call setOptionForNode).

Schedule 1 (reader stalled between (2) and (3)):
    reader: (1) miss, (2) reads arguments "v1"
    writer: setOptionForNode(arguments = "v2")   -> invalidates (nothing cached yet), changes the description
    reader: (3) stores the configuration with "v1"
    every later query answers "v1" although the description says "v2" - until some unrelated update clears the cache

Schedule 2 (writer stalled between its invalidation and its assignment):
    writer: get_component(return_copy=False) -> cache invalidated
    reader: full query, caches "v2"
    writer: assigns "v3"
    every later query answers "v2"

Schedule 3 (reader stalled between the check and the lookup of (1)): the query raises KeyError.

The schedules are forced with events placed in FlowIR.convert_component_types / FlowIRCache (nothing of the logic is
replaced), the objects are the real ones.
"""
import logging
import sys
import threading

logging.disable(logging.CRITICAL)

import experiment.model.frontends.flowir as fl

FlowIR = fl.FlowIR

FLOWIR = {
    'components': [
        {'name': 'one', 'stage': 0, 'command': {'executable': 'echo', 'arguments': 'v0'}},
    ]
}
COMP = (0, 'one')


def query(concrete):
    return concrete.get_component_configuration(COMP, include_default=True)['command']['arguments']


def from_scratch(concrete):
    # VV: the oracle of C08
    fresh = fl.FlowIRConcrete(concrete.raw(), concrete.active_platform, {})
    return fresh.get_component_configuration(COMP, include_default=True)['command']['arguments']


def schedule_1():
    concrete = fl.FlowIRConcrete(FLOWIR, 'default', {})
    concrete.set_component_option(COMP, '#command.arguments', 'v1')

    reached, resume = threading.Event(), threading.Event()
    original = FlowIR.convert_component_types.__func__

    def stalled(cls, comp, *args, **kwargs):
        ret = original(cls, comp, *args, **kwargs)
        if threading.current_thread().name == 'reader':
            # VV: the reader has read the description and resolved it, it is about to publish it in the cache
            reached.set()
            resume.wait(20)
        return ret

    FlowIR.convert_component_types = classmethod(stalled)
    try:
        seen = []
        reader = threading.Thread(target=lambda: seen.append(query(concrete)), name='reader')
        reader.start()
        assert reached.wait(20)
        concrete.set_component_option(COMP, '#command.arguments', 'v2')   # complete update, returns
        resume.set()
        reader.join(20)
    finally:
        FlowIR.convert_component_types = classmethod(original)

    later = [query(concrete) for _ in range(3)]
    expected = from_scratch(concrete)
    print('schedule 1: overlapping query saw %r; queries after the update: %r; from scratch: %r' % (
        seen, later, expected))
    return [] if set(later) == {expected} else [
        'schedule 1: queries issued after setOption(arguments=%r) returned keep answering %r' % (expected, later[0])]


def schedule_2():
    concrete = fl.FlowIRConcrete(FLOWIR, 'default', {})
    concrete.set_component_option(COMP, '#command.arguments', 'v2')
    query(concrete)   # cached "v2"

    original = fl.FlowIRCache.invalidate_reg_expression
    seen = []

    def stalled(self, reg_expression):
        ret = original(self, reg_expression)
        if threading.current_thread().name == 'writer':
            # VV: the writer invalidated the cache, it has not assigned the new value yet: a reader runs now
            reader = threading.Thread(target=lambda: seen.append(query(concrete)), name='reader')
            reader.start()
            reader.join(20)
        return ret

    fl.FlowIRCache.invalidate_reg_expression = stalled
    try:
        writer = threading.Thread(
            target=lambda: concrete.set_component_option(COMP, '#command.arguments', 'v3'), name='writer')
        writer.start()
        writer.join(20)
    finally:
        fl.FlowIRCache.invalidate_reg_expression = original

    later = [query(concrete) for _ in range(3)]
    expected = from_scratch(concrete)
    print('schedule 2: overlapping query saw %r; queries after the update: %r; from scratch: %r' % (
        seen, later, expected))
    return [] if set(later) == {expected} else [
        'schedule 2: queries issued after setOption(arguments=%r) returned keep answering %r' % (expected, later[0])]


def schedule_3():
    concrete = fl.FlowIRConcrete(FLOWIR, 'default', {})
    query(concrete)   # cached

    original = fl.FlowIRCache.in_cache
    outcome = []

    def stalled(self, reference):
        ret = original(self, reference)
        if threading.current_thread().name == 'reader' and ret:
            # VV: the reader saw the entry; an update of the component lands before it fetches it
            writer = threading.Thread(
                target=lambda: concrete.set_component_option(COMP, '#command.arguments', 'v4'), name='writer')
            writer.start()
            writer.join(20)
        return ret

    def read():
        try:
            outcome.append(query(concrete))
        except Exception as e:
            outcome.append(e)

    fl.FlowIRCache.in_cache = stalled
    try:
        reader = threading.Thread(target=read, name='reader')
        reader.start()
        reader.join(20)
    finally:
        fl.FlowIRCache.in_cache = original

    print('schedule 3: the query that overlaps the update returned %r' % (outcome,))
    if outcome and isinstance(outcome[0], Exception):
        return ['schedule 3: get_component_configuration raised %s(%s) instead of answering' % (
            type(outcome[0]).__name__, outcome[0])]
    return []


if __name__ == '__main__':
    problems = schedule_1() + schedule_2() + schedule_3()
    for p in problems:
        print('WRONG: %s' % p)
    if problems:
        print('\nFAIL: configuration queries do not reflect the latest update (C08)')
        sys.exit(1)
    print('ok')
