import random, sys, yaml, shutil, json, subprocess, os
from harness import *
from fuzz1 import gen, dump2

def shuffle(obj, rng):
    if isinstance(obj, dict):
        keys = list(obj); rng.shuffle(keys)
        return {k: shuffle(obj[k], rng) for k in keys}
    if isinstance(obj, list):
        return [shuffle(x, rng) for x in obj]
    return obj

def one(doc, plat):
    d = tempfile.mkdtemp()
    try:
        try:
            e = load_pkg(yaml.safe_dump(doc, sort_keys=False), d, platform=plat)
        except BaseException as ex:
            return 'LOADFAIL ' + type(ex).__name__ + str(ex)[-200:]
        a = dump2(e)
        g = e.experimentGraph
        for n in a:
            if n == '__edges__': continue
            s = g.graph.nodes[n]['componentSpecification']
            a[n]['memo'] = s.memoization_hash
            a[n]['preds'] = sorted(g.graph.predecessors(n))
            if isinstance(a[n].get('env'), dict): a[n]['env'].pop('PYTHONHASHSEED', None)
        a['__nodes__'] = sorted(g.graph.nodes)
        a['__inst__'] = yaml.safe_load(open(e.instanceDirectory.location + '/conf/flowir_instance.yaml'))
        return json.loads(json.dumps(a, default=str, sort_keys=True))
    finally:
        shutil.rmtree(d, ignore_errors=True)

if __name__ == '__main__':
    mode = sys.argv[1]
    start, count = int(sys.argv[2]), int(sys.argv[3])
    if mode == 'child':
        out = {}
        for seed in range(start, start+count):
            doc, plat = gen(random.Random(seed))
            r = one(doc, plat)
            if isinstance(r, str): r = 'LOADFAIL'
            out[seed] = r
        json.dump(out, sys.stdout)
    elif mode == 'seeds':
        res = []
        for hs in ['0', '1', '7']:
            env = dict(os.environ, PYTHONHASHSEED=hs)
            p = subprocess.run([sys.executable, '-W', 'ignore', __file__, 'child', str(start), str(count)], env=env, capture_output=True, text=True)
            res.append(json.loads(p.stdout))
        for seed in res[0]:
            for i in (1, 2):
                if res[0][seed] != res[i][seed]:
                    a, b = res[0][seed], res[i][seed]
                    print(seed, 'HASHSEED DIFF')
                    if isinstance(a, dict) and isinstance(b, dict):
                        for k in a:
                            if a[k] != b.get(k):
                                if isinstance(a[k], dict):
                                    for kk in a[k]:
                                        if a[k][kk] != b[k].get(kk): print('  ', k, kk, str(a[k][kk])[:300], '|||', str(b[k].get(kk))[:300])
                                else: print('  ', k, str(a[k])[:300], '|||', str(b[k])[:300])
                    break
        print('done')
    elif mode == 'shuffle':
        for seed in range(start, start+count):
            doc, plat = gen(random.Random(seed))
            a = one(doc, plat)
            if isinstance(a, str): continue
            b = one(shuffle(doc, random.Random(seed+1000)), plat)
            if a != b:
                print(seed, 'SHUFFLE DIFF')
                if isinstance(b, str): print(b); continue
                for k in a:
                    if a[k] != b.get(k):
                        if isinstance(a[k], dict):
                            for kk in a[k]:
                                if a[k][kk] != b[k].get(kk): print('  ', k, kk, str(a[k][kk])[:300], '|||', str(b[k].get(kk))[:300])
                        else: print('  ', k, str(a[k])[:300], '|||', str(b[k])[:300])
        print('done')
