import random, sys, copy, logging
logging.disable(logging.CRITICAL)
import experiment.model.frontends.flowir as fl
FlowIR = fl.FlowIR

BASE = {
  'platforms': ['default', 'p1', 'p2'],
  'variables': {'default': {'global': {'g': 'G', 'h': '%(g)s-h', 'n': 1}, 'stages': {0: {'s': 'S0'}, 1: {'s': 'S1'}}},
                'p1': {'global': {'g': 'P1G'}, 'stages': {0: {'s': 'P1S0'}}}},
  'blueprint': {'default': {'global': {'command': {'environment': 'e'}}}, 'p2': {'stages': {1: {'resourceRequest': {'numberThreads': 2}}}}},
  'environments': {'default': {'e': {'A': '%(g)s'}}},
  'components': [
    {'name': 'a', 'stage': 0, 'command': {'executable': 'echo', 'arguments': '%(g)s %(h)s %(s)s %(v)s'}, 'variables': {'v': 'va'}},
    {'name': 'b', 'stage': 1, 'command': {'executable': 'echo', 'arguments': '%(g)s %(s)s a:ref'}, 'references': ['stage0.a:ref'],
     'override': {'p1': {'command': {'arguments': 'ov %(g)s'}}}},
    {'name': 'a.b', 'stage': 1, 'command': {'executable': 'echo', 'arguments': '%(s)s'}},
    {'name': 'a+b', 'stage': 1, 'command': {'executable': 'echo', 'arguments': '%(n)s'}},
  ],
}

def snapshot(c):
    out = {}
    for plat in c.platforms:
        for cid in sorted(c.get_component_identifiers(True)):
            try:
                out[(plat,)+cid] = c.get_component_configuration(cid, platform=plat, include_default=True)
            except Exception as e:
                out[(plat,)+cid] = 'EXC %s' % type(e).__name__
    return out

def run(seed):
    rng = random.Random(seed)
    c = fl.FlowIRConcrete(copy.deepcopy(BASE), rng.choice(['default', 'p1', 'p2']), {})
    hist = []
    for step in range(rng.randint(3, 25)):
        ids = sorted(c.get_component_identifiers(True))
        cid = rng.choice(ids)
        plat = rng.choice(['default', 'p1', 'p2', None])
        val = 'x%d' % step
        op = rng.choice(['q', 'q', 'qall', 'setvar', 'setopt', 'rmvar', 'rmopt', 'glob', 'stage', 'pglob', 'pstage', 'switch',
                         'add', 'del', 'upd', 'live', 'liveglob', 'livestage', 'livecomps', 'qraw', 'mutret'])
        hist.append((op, cid, plat, val))
        try:
            if op == 'q': c.get_component_configuration(cid, include_default=True)
            elif op == 'qraw': c.get_component_configuration(cid, include_default=True, raw=True); c.get_component_configuration(cid, include_default=True, is_primitive=True); c.get_component_configuration(cid, include_default=True, ignore_convert_errors=True)
            elif op == 'qall': snapshot(c)
            elif op == 'mutret':
                r = c.get_component_configuration(cid, include_default=True); r['command']['arguments'] = 'MUT'; r['variables']['zz'] = 1
            elif op == 'setvar': c.set_component_option(cid, rng.choice(['v', 'g', 's']), val)
            elif op == 'setopt': c.set_component_option(cid, rng.choice(['#command.arguments', '#resourceRequest.numberThreads', '#command.executable']), rng.choice([val, '%(g)s', 3]))
            elif op == 'rmvar': c.remove_component_option(cid, rng.choice(['v', 'g', 's']))
            elif op == 'rmopt': c.remove_component_option(cid, '#command.arguments'); c.set_component_option(cid, '#command.arguments', 'back')
            elif op == 'glob': c.set_global_variable(rng.choice(['g', 'h', 'new']), val)
            elif op == 'stage': c.set_stage_variable(rng.choice([0, 1]), rng.choice(['s', 'g']), val)
            elif op == 'pglob': c.set_platform_global_variable(rng.choice(['g', 'h']), val, plat)
            elif op == 'pstage': c.set_platform_stage_variable(rng.choice([0, 1]), rng.choice(['s', 'g']), val, plat)
            elif op == 'switch': c.configure_platform(plat)
            elif op == 'add': c.add_component({'name': 'n%d' % step, 'stage': rng.choice([0, 1]), 'command': {'executable': 'echo', 'arguments': '%(g)s'}})
            elif op == 'del':
                if len(ids) > 2: c.delete_component(cid)
            elif op == 'upd':
                d = c.get_component(cid); d.setdefault('variables', {})['g'] = val; c.update_component(cid, d)
            elif op == 'live':
                d = c.get_component(cid, return_copy=False); d['command']['arguments'] = val + ' %(g)s'
            elif op == 'liveglob':
                d = c.get_platform_global_variables(plat, return_copy=False); d['g'] = val
            elif op == 'livestage':
                d = c.get_platform_stage_variables(rng.choice([0, 1]), plat, return_copy=False); d['s'] = val
            elif op == 'livecomps':
                pass
        except Exception as e:
            hist[-1] += ('EXC ' + type(e).__name__,)
        if rng.random() < 0.3: snapshot(c)
    got = snapshot(c)
    fresh = fl.FlowIRConcrete(c.raw(), c.active_platform, {})
    want = snapshot(fresh)
    if got != want:
        print(seed, 'DIFF')
        for k in want:
            if got.get(k) != want[k]:
                print('  ', k, str(got.get(k))[:200], '|||', str(want[k])[:200]); break
        for h in hist: print('    ', h)
        return 1
    return 0

if __name__ == '__main__':
    bad = 0
    for seed in range(int(sys.argv[1]), int(sys.argv[2])):
        bad += run(seed)
        if bad > 2: break
    print('bad', bad)
