#!/usr/bin/env python
"""demo1 - C07 / C15: the memoization hash of a component changes when the instance is loaded from its own files.

Run:  cd /tmp/wt/H12 && PYTHONPATH=/tmp/wt/H12/python /venv/bin/python HUNT/demo1.py

A package defines   appdir: /opt/app   and   exedir: "%(appdir)s/bin"   (a variable built from another variable) and a
component whose executable is "%(exedir)s/sim".

  scenario A: the user supplies a variable file that overrides `appdir` (the documented way to parametrise a run)
  scenario B: no user file; the component overrides `appdir` in its own `variables`

  scenario C: as B, but compares the resolved configuration (not the hash) of the primitive graph built from the
              package description and from the instance description that was stored for it

In scenarios A and B the experiment that is created from the package and the experiment that is obtained by loading the
instance directory it wrote (what a restart does) must be "the same experiment" (C07): same resolved configurations and
therefore the same memoization information/hashes (C15 lists the memoization hashes as part of what loading must
reproduce). They are not: ComponentSpecification._compute_memoization_info() takes the executable from
`configuration._unreplicated`, which is the raw package description (variables resolved lazily, in the flat
component scope) in the fresh experiment but the folded description of FlowIRConcrete.instance() (global variables
resolved eagerly, in the global scope only) in the reloaded one.
"""
import logging
import os
import sys
import tempfile
import uuid

logging.disable(logging.CRITICAL)

import experiment.model.data
import experiment.model.graph
import experiment.model.storage

PACKAGE_A = """
variables:
  default:
    global:
      appdir: /opt/app
      exedir: "%(appdir)s/bin"
components:
- name: simulate
  stage: 0
  command:
    executable: "%(exedir)s/sim"
    arguments: "--home %(appdir)s"
    resolvePath: false
"""

PACKAGE_B = """
variables:
  default:
    global:
      appdir: /opt/app
      exedir: "%(appdir)s/bin"
components:
- name: simulate
  stage: 0
  variables:
    appdir: /scratch/app
  command:
    executable: "%(exedir)s/sim"
    arguments: "--home %(appdir)s"
    resolvePath: false
"""


def load(flowir, location, variable_files=None):
    package_path = os.path.join(location, '%s.package' % uuid.uuid4())
    os.makedirs(os.path.join(package_path, 'conf'))
    with open(os.path.join(package_path, 'conf', 'flowir_package.yaml'), 'w') as f:
        f.write(flowir)
    pkg = experiment.model.storage.ExperimentPackage.packageFromLocation(package_path)
    exp = experiment.model.data.Experiment.experimentFromPackage(pkg, location=location, variable_files=variable_files)
    exp.validateExperiment(checkExecutables=False)
    return exp


def describe(exp):
    graph = exp.experimentGraph
    spec = graph.graph.nodes['stage0.simulate']['componentSpecification']
    return {
        'runs': graph.configurationForNode('stage0.simulate')['command']['executable'],
        'memoization_info': spec.memoization_info,
        'memoization_hash': spec.memoization_hash,
    }


def scenario(label, flowir, user_variables=None):
    location = tempfile.mkdtemp()
    variable_files = None
    if user_variables:
        path = os.path.join(location, 'variables.yaml')
        with open(path, 'w') as f:
            f.write(user_variables)
        variable_files = [path]

    fresh = load(flowir, location, variable_files)
    before = describe(fresh)
    reloaded = experiment.model.data.Experiment.experimentFromInstance(fresh.instanceDirectory.location)
    after = describe(reloaded)

    print('--- %s' % label)
    print('  created from package : executable that runs = %s' % before['runs'])
    print('                         memoization_info     = %s' % before['memoization_info'])
    print('                         memoization_hash     = %s' % before['memoization_hash'])
    print('  loaded from instance : executable that runs = %s' % after['runs'])
    print('                         memoization_info     = %s' % after['memoization_info'])
    print('                         memoization_hash     = %s' % after['memoization_hash'])

    problems = []
    if before['runs'] != after['runs']:
        problems.append('the executable changed')
    if before['memoization_hash'] != after['memoization_hash']:
        problems.append('memoization hash %s became %s after loading the instance' % (
            before['memoization_hash'], after['memoization_hash']))
    if before['memoization_info'] and before['memoization_info']['command']['executable'] != before['runs']:
        problems.append('before the reload the memoization information describes %s but the component runs %s' % (
            before['memoization_info']['command']['executable'], before['runs']))
    for p in problems:
        print('  WRONG: %s' % p)
    return problems


def scenario_primitive(label, flowir):
    """The primitive graph (the default of graphFromExperimentInstanceDirectory, used by the inspection tools) of ONE
    instance directory: built from the package description in it and built from the instance description in it"""
    location = tempfile.mkdtemp()
    fresh = load(flowir, location)
    instance_dir = experiment.model.storage.ExperimentInstanceDirectory(fresh.instanceDirectory.location)
    commands = {}
    for is_instance in (False, True):
        graph = experiment.model.graph.WorkflowGraph.graphFromExperimentInstanceDirectory(
            instance_dir, primitive=True, is_instance=is_instance, createInstanceConfiguration=False)
        commands[is_instance] = graph.configurationForNode('stage0.simulate')['command']
    print('--- %s' % label)
    print('  conf/flowir_package.yaml  : %s %s' % (commands[False]['executable'], commands[False]['arguments']))
    print('  conf/flowir_instance.yaml : %s %s' % (commands[True]['executable'], commands[True]['arguments']))
    if commands[False] != commands[True]:
        print('  WRONG: the stored instance description resolves to a different command line')
        return ['resolved configuration of stage0.simulate differs between package and stored instance description']
    return []


if __name__ == '__main__':
    problems = []
    problems += scenario('A: user variable file overrides appdir', PACKAGE_A, "global:\n  appdir: /home/me/app\n")
    problems += scenario('B: component variable overrides appdir', PACKAGE_B)
    problems += scenario_primitive('C: package B, resolved configuration of the primitive graph', PACKAGE_B)

    if problems:
        print('\nFAIL: the instance loaded from its own files is not the same experiment (C07), its memoization '
              'hashes differ from those of the experiment that wrote the files (C15)')
        sys.exit(1)
    print('ok')
