import os, sys, uuid, tempfile, json, logging
logging.disable(logging.CRITICAL)
import experiment.model.data, experiment.model.storage, experiment.model.graph
from experiment.model.frontends.flowir import FlowIR, FlowIRConcrete

def load_pkg(flowir_text, location, platform=None, variable_files=None, extra_files=None):
    package_path = os.path.join(location, '%s.package' % uuid.uuid4())
    os.makedirs(os.path.join(package_path, 'conf'))
    with open(os.path.join(package_path, 'conf', 'flowir_package.yaml'), 'w') as f:
        f.write(flowir_text)
    for p, t in (extra_files or {}).items():
        fp = os.path.join(package_path, p)
        os.makedirs(os.path.dirname(fp), exist_ok=True)
        open(fp, 'w').write(t)
    pkg = experiment.model.storage.ExperimentPackage.packageFromLocation(package_path, platform=platform)
    exp = experiment.model.data.Experiment.experimentFromPackage(pkg, location=location, platform=platform,
                                                                 variable_files=variable_files)
    exp.validateExperiment(checkExecutables=False)
    return exp

def reload(exp, platform=None):
    return experiment.model.data.Experiment.experimentFromInstance(exp.instanceDirectory.location, platform=platform)

def dump(exp):
    g = exp.experimentGraph
    out = {}
    for n, d in sorted(g.graph.nodes(data=True)):
        spec = d['componentSpecification']
        conf = spec.configuration if hasattr(spec, 'configuration') else None
        out[n] = {'conf': g.configurationForNode(n), 'refs': [r.stringRepresentation for r in spec.dataReferences],
                  'cmd': spec.commandDetails if hasattr(spec,'commandDetails') else None}
    out['__edges__'] = sorted(map(list, g.graph.edges()))
    return out
