"""Helper shared by the demos: writes a small, valid DOSINI package (conf/experiment.conf + conf/stages.d)."""
import os
import shutil


def make(root, stage0_executable='echo'):
    if os.path.exists(root):
        shutil.rmtree(root)
    c = os.path.join(root, 'conf')
    os.makedirs(os.path.join(c, 'stages.d'))
    os.makedirs(os.path.join(c, 'variables.d'))
    os.makedirs(os.path.join(root, 'data'))
    with open(os.path.join(root, 'data', 'in.txt'), 'w') as f:
        f.write('hello\n')
    with open(os.path.join(c, 'experiment.conf'), 'w') as f:
        f.write("[DEFAULT]\nname=Test\n[SANDBOX]\n[ENV-MYENV]\nFOO=bar\n")
    with open(os.path.join(c, 'variables.conf'), 'w') as f:
        f.write("[GLOBAL]\nn=2\nmsg=hi\n[STAGE1]\nk=1\n")
    with open(os.path.join(c, 'stages.d', 'stage0.conf'), 'w') as f:
        f.write(stage0(stage0_executable))
    with open(os.path.join(c, 'stages.d', 'stage1.conf'), 'w') as f:
        f.write("[DEFAULT]\njob-type=local\n[Final]\nexecutable=cat\n"
                "arguments=stage0.Agg:output %(k)s\nreferences=stage0.Agg:output\n")
    with open(os.path.join(c, 'output.conf'), 'w') as f:
        f.write("[Result]\ndata-in=stage1.Final/out.stdout:copy\ndescription=the result\ntype=csv\n")
    with open(os.path.join(c, 'status.conf'), 'w') as f:
        f.write("[STAGE0]\nstage-weight=0.5\n[STAGE1]\nstage-weight=0.5\n")
    return root


def stage0(executable):
    return ("[DEFAULT]\njob-type=local\n"
            "[Gen]\nexecutable=%s\narguments=%%(msg)s data/in.txt:ref\nreferences=data/in.txt:ref\n"
            "environment=myenv\nreplicate=%%(n)s\n"
            "[Agg]\nexecutable=cat\narguments=Gen:ref/out.stdout\nreferences=Gen:ref\naggregate=yes\n" % executable)
