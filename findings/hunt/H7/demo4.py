#!/usr/bin/env python
"""(outside C14/C15, reported because it makes memoization hashes wrong) - component names that end in a digit.

ComponentSpecification._compute_memoization_info() finds the definition of the component in the unreplicated FlowIR
with   blueprint_name = self.identification.componentName.rstrip('0123456789')   (graph.py:1466)
to turn the name of a replica (Gen0, Gen1, ...) back into the name of its blueprint (Gen).  The same is done to
components that are NOT replicas: `sim2` becomes `sim`, `step7` becomes `step`.

Input:     components  sim  (executable echo),  sim2  (executable printf),  step7  (executable printf); same arguments.
Observed:  sim2 gets the memoization info {'executable': 'echo'} and the SAME hash as sim; step7 gets no hash at all.
Expected:  sim2's hash is built from its own executable (printf) and differs from sim's; step7 has a hash.
"""
import logging
import os
import shutil
import sys
import tempfile
import warnings

warnings.simplefilter('ignore')
HERE = os.path.dirname(os.path.abspath(__file__))
sys.path.insert(0, os.path.join(os.path.dirname(HERE), 'python'))
logging.disable(logging.CRITICAL)
import experiment.model.data  # noqa
import experiment.model.storage  # noqa

FLOWIR = """
components:
- name: sim
  command: {executable: echo, arguments: hello}
- name: sim2
  command: {executable: printf, arguments: hello}
- name: step7
  command: {executable: printf, arguments: hello}
"""


def main():
    root = tempfile.mkdtemp(prefix='demo4-')
    conf = os.path.join(root, 'wf.package', 'conf')
    os.makedirs(conf)
    with open(os.path.join(conf, 'flowir_package.yaml'), 'w') as f:
        f.write(FLOWIR)
    exp = experiment.model.data.Experiment.experimentFromPackage(
        experiment.model.storage.ExperimentPackage.packageFromLocation(os.path.dirname(conf)), location=root)
    spec = {n: exp.graph.nodes[n]['componentSpecification'] for n in exp.graph.nodes}
    problems = []
    for n in sorted(spec):
        s = spec[n]
        print("%-13s executable=%-7s memoization_hash=%s info=%s" % (
            n, s.commandDetails.get('executable'), s.memoization_hash, s.memoization_info))
    if spec['stage0.sim2'].memoization_hash == spec['stage0.sim'].memoization_hash:
        problems.append("stage0.sim2 (printf) has the memoization hash of stage0.sim (echo)")
    if (spec['stage0.sim2'].memoization_info or {}).get('command', {}).get('executable') != 'printf':
        problems.append("the memoization info of stage0.sim2 does not record its executable printf")
    if spec['stage0.step7'].memoization_hash is None:
        problems.append("stage0.step7 has no memoization hash (looked up as 'stage0.step')")
    shutil.rmtree(root, ignore_errors=True)
    for p in problems:
        print("DEFECT:", p)
    return 1 if problems else 0


if __name__ == '__main__':
    sys.exit(main())
