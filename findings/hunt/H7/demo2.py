#!/usr/bin/env python
"""C14 - ExperimentInstanceDirectory.consolidate() has a crash point that loses status.txt / output.json.

While an experiment runs `<instance>/output` is a symbolic link to a shadow directory under /tmp; status.txt,
output.txt, output.json and status_details.json are written there.  elaunch's last action (and the error path of
Experiment.experimentFromPackage) is instanceDirectory.consolidate():

    shutil.copytree(shadow/output, "output-local")
    os.unlink("output")                      # <- the state files are not reachable from here ...
    os.rename("output-local", "output")      # <- ... to here
    shutil.rmtree(shadow)

History:  create an instance, record the final status exactly as elaunch does (exit-status=Success,
          experiment-state=finished, persistentUpdate()), then consolidate().
Fault:    the process dies at each system-call boundary of consolidate() in turn.
Check:    a new process opens the instance (Experiment.experimentFromInstance) and reads the status back.

Exits 1 when, after some crash point, the recorded status cannot be read back (a fresh 'Initialising' status is
what the loader hands out instead).
"""
import json
import logging
import os
import shutil
import subprocess
import sys
import tempfile
import warnings

warnings.simplefilter('ignore')
HERE = os.path.dirname(os.path.abspath(__file__))
REPO_PY = os.path.join(os.path.dirname(HERE), 'python')
ENV = dict(os.environ, PYTHONPATH=REPO_PY + os.pathsep + HERE + os.pathsep + os.environ.get('PYTHONPATH', ''),
           PYTHONWARNINGS='ignore')

CHILD = r'''
import os, sys, shutil, logging, datetime
logging.disable(logging.CRITICAL)
root, K = sys.argv[1], int(sys.argv[2])
import _dosini_pkg
import experiment.model.data, experiment.model.storage, experiment.model.codes
pkg = _dosini_pkg.make(os.path.join(root, 'dos.package'))
exp = experiment.model.data.Experiment.experimentFromPackage(
    experiment.model.storage.ExperimentPackage.packageFromLocation(pkg), location=root, timestamp=False)
inst = exp.instanceDirectory

# what elaunch.py does in its `finally` block
with inst.mtx_output:
    exp.statusFile.setExitStatus('Success')
    exp.statusFile.setCompleted(datetime.datetime.now())
    exp.statusFile.setExperimentState(experiment.model.codes.FINISHED_STATE)
    exp.statusFile.persistentUpdate()
    with open(os.path.join(inst.absoluteOutputDirectory, 'output.json'), 'w') as f:
        f.write('{"Result": {"version": "1"}}')

count = [0]
nested = [0]
def boundary(label):
    if nested[0] > 1:
        return          # system calls made from inside copytree/rmtree are not separate boundaries here
    count[0] += 1
    if count[0] == K:
        sys.stdout.write(label); sys.stdout.flush()
        os._exit(77)
def wrap(module, name, label):
    real = getattr(module, name)
    def f(*a, **k):
        nested[0] += 1
        try:
            boundary('before %s' % label)
            r = real(*a, **k)
            boundary('after  %s' % label)
        finally:
            nested[0] -= 1
        return r
    setattr(module, name, f)
wrap(shutil, 'copytree', 'copytree(shadow/output, output-local)')
wrap(os, 'unlink', 'unlink(<instance>/output)')
wrap(os, 'rename', 'rename(output-local, output)')
wrap(shutil, 'rmtree', 'rmtree(shadow)')
inst.consolidate()
sys.stdout.write('completed, %d boundaries' % count[0])
'''

READ = r'''
import sys, json, logging, os
logging.disable(logging.CRITICAL)
import experiment.model.data
e = experiment.model.data.Experiment.experimentFromInstance(sys.argv[1], updateInstanceConfiguration=False)
s = e.statusFile
print(json.dumps({'exit-status': s.data['exit-status'], 'experiment-state': s.experimentState(),
                  'status.txt': os.path.exists(os.path.join(sys.argv[1], 'output', 'status.txt')),
                  'output.json': os.path.exists(os.path.join(sys.argv[1], 'output', 'output.json'))}))
'''


def run(code, *args):
    return subprocess.run([sys.executable, '-c', code] + list(args), capture_output=True, text=True, env=ENV)


def main():
    bad = []
    K = 1
    while K < 20:
        root = tempfile.mkdtemp(prefix='demo2-')
        try:
            p = run(CHILD, root, str(K))
            if p.returncode not in (0, 77):
                print(p.stderr[-3000:])
                return 2
            inst = os.path.join(root, 'dos.instance')
            r = run(READ, inst)
            got = json.loads(r.stdout) if r.returncode == 0 else {'load error': r.stderr.strip().splitlines()[-1][:150]}
            ok = got.get('exit-status') == 'Success' and got.get('experiment-state') == 'finished'
            print("%-7s %-50s -> %s %s" % ('crash' if p.returncode == 77 else 'no crash', p.stdout, 'ok ' if ok else 'LOST', got))
            if not ok:
                bad.append((K, p.stdout, sorted(os.listdir(inst))))
            if p.returncode == 0:
                break
        finally:
            shutil.rmtree(root, ignore_errors=True)
            shutil.rmtree(os.path.join('/tmp', 'chpc-%s-shadow' % __import__('getpass').getuser(), 'dos.shadow'),
                          ignore_errors=True)
        K += 1

    if bad:
        for k, where, listing in bad:
            print("\nDEFECT (C14): a crash %s leaves the instance without `output`: %s\n"
                  "  the written status (exit-status=Success, experiment-state=finished) and output.json are not read "
                  "back; the loader reports a fresh 'Initialising' status instead." % (where.strip(), listing))
        return 1
    print("no violation observed")
    return 0


if __name__ == '__main__':
    sys.exit(main())
