#!/usr/bin/env python
"""C14 - the instance description of a DOSINI based instance is rewritten in place, file by file.

History:  1. create an instance from a DOSINI package (conf/experiment.conf + conf/stages.d/stage<N>.conf)
          2. open the instance again with the documented default call
             Experiment.experimentFromInstance(path)   (updateInstanceConfiguration defaults to True)
             -> Dosini.dump(is_instance=True, update_existing=True) first DELETES conf/stages.d/stage*.instance.conf,
                then open(..., 'w')s conf/experiment.instance.conf and every stage<N>.instance.conf in turn.
Fault:    the process that performs step 2 dies at the K-th modification of conf/ (every K is tried).
Check:    the description loaded afterwards (is_instance=True, nothing is written) must be the complete previous
          version or the complete new one.

Exits 1 and prints the crash points after which the instance cannot be loaded, or silently loads as a DIFFERENT
workflow (no components at all / a stage missing).
"""
import json
import logging
import os
import shutil
import subprocess
import sys
import tempfile
import warnings

warnings.simplefilter('ignore')
HERE = os.path.dirname(os.path.abspath(__file__))
REPO_PY = os.path.join(os.path.dirname(HERE), 'python')
ENV = dict(os.environ, PYTHONPATH=REPO_PY + os.pathsep + HERE + os.pathsep + os.environ.get('PYTHONPATH', ''),
           PYTHONWARNINGS='ignore')

CHILD = r'''
# opens the instance with the default arguments; dies (os._exit) at the K-th modification under conf/
import os, sys, builtins, logging
logging.disable(logging.CRITICAL)
inst, K = sys.argv[1], int(sys.argv[2])
conf = os.path.join(os.path.realpath(inst), 'conf')
count = [0]
def tick(what, path):
    p = os.path.realpath(os.fspath(path))
    if not p.startswith(conf + os.sep):
        return
    count[0] += 1
    if count[0] == K:
        sys.stdout.write("%s %s" % (what, os.path.relpath(p, conf))); sys.stdout.flush()
        os._exit(77)
_remove, _open, _rename, _replace = os.remove, builtins.open, os.rename, os.replace
def remove(p, *a, **k):
    tick('just before os.remove of', p)
    return _remove(p, *a, **k)
def open_(p, mode='r', *a, **k):
    f = _open(p, mode, *a, **k)
    if isinstance(p, (str, os.PathLike)) and any(c in mode for c in 'wax+'):
        tick("just after open(..., '%s') of" % mode, p)
    return f
def rename(s, d, *a, **k):
    tick('just before rename onto', d)
    return _rename(s, d, *a, **k)
def replace(s, d, *a, **k):
    tick('just before replace onto', d)
    return _replace(s, d, *a, **k)
os.remove, builtins.open, os.rename, os.replace = remove, open_, rename, replace
import experiment.model.data
experiment.model.data.Experiment.experimentFromInstance(inst)
sys.stdout.write("completed after %d modifications" % count[0])
'''

DESCRIBE = r'''
import sys, json, logging
logging.disable(logging.CRITICAL)
import experiment.model.conf
c = experiment.model.conf.ExperimentConfigurationFactory.configurationForExperiment(
    sys.argv[1], is_instance=True, createInstanceFiles=False, updateInstanceFiles=False, primitive=True)
k = c.get_flowir_concrete()
print(json.dumps({"stage%d.%s" % cid: k.get_component_configuration(cid, raw=True, include_default=True, is_primitive=True)
                  for cid in sorted(k.get_component_identifiers(False))}, sort_keys=True, default=str))
'''


def run(code, *args):
    return subprocess.run([sys.executable, '-c', code] + list(args), capture_output=True, text=True, env=ENV)


def describe(inst):
    p = run(DESCRIBE, inst)
    if p.returncode:
        return 'CANNOT BE LOADED: ' + (p.stderr.strip().splitlines() or ['?'])[-1][:160]
    return json.loads(p.stdout)


def main():
    sys.path.insert(0, REPO_PY)
    sys.path.insert(0, HERE)
    logging.disable(logging.CRITICAL)
    import _dosini_pkg
    import experiment.model.data
    import experiment.model.storage
    print("library:", os.path.dirname(experiment.model.data.__file__))

    root = tempfile.mkdtemp(prefix='demo1-')
    pkg = _dosini_pkg.make(os.path.join(root, 'dos.package'))
    exp = experiment.model.data.Experiment.experimentFromPackage(
        experiment.model.storage.ExperimentPackage.packageFromLocation(pkg), location=root)
    inst = exp.instanceDirectory.location
    conf = os.path.join(inst, 'conf')
    backup = os.path.join(root, 'conf.backup')
    shutil.copytree(conf, backup)

    previous = describe(inst)
    print("previous version of the instance description: components", sorted(previous))

    # the complete new version = what an uninterrupted re-open leaves behind
    p = run(CHILD, inst, '0')
    assert p.returncode == 0, p.stderr
    new = describe(inst)
    print("uninterrupted re-open: %s; new version has components %s" % (p.stdout, sorted(new)))

    bad = []
    K = 1
    while K < 50:
        shutil.rmtree(conf)
        shutil.copytree(backup, conf)
        p = run(CHILD, inst, str(K))
        if p.returncode != 77:
            break
        got = describe(inst)
        if got == previous or got == new:
            verdict = 'ok (a complete version)'
        elif isinstance(got, str):
            verdict = got
            bad.append((K, p.stdout, verdict))
        else:
            verdict = 'LOADS AS A DIFFERENT WORKFLOW: components %s' % sorted(got)
            bad.append((K, p.stdout, verdict))
        print("crash #%d, %-62s -> %s" % (K, p.stdout, verdict))
        K += 1

    shutil.rmtree(root, ignore_errors=True)
    if bad:
        print("\nDEFECT (C14): after %d of the %d crash points the instance description on disk is neither the "
              "complete previous nor the complete new version." % (len(bad), K - 1))
        return 1
    print("no violation observed")
    return 0


if __name__ == '__main__':
    sys.exit(main())
