#!/usr/bin/env python
"""C15 - which file defines a stage of a DOSINI package depends on the order in which the directory is listed.

Dosini._discover_stages() globs conf/stages.d/stage*.conf and derives the index of the stage from the characters
between 'stage' and the first '.', so `stage0.conf`, `stage0.orig.conf` (a backup left next to it by an editor, a
merge tool or a user) and `stage00.conf` all claim stage 0.  The dictionary entry is simply overwritten: the file
that glob happens to return LAST wins.  glob/os.scandir return entries in file-system order, which is arbitrary.

Input:     two byte-for-byte identical packages; only the order in which the two files were created differs.
Observed:  (a) on a real tmpfs (lists entries newest first) when /dev/shm is available,
           (b) with glob.glob wrapped to return its (unchanged) result in ascending / descending order.
Expected:  the same components and the same resolved configuration in every case (or an error about the ambiguity).

Exits 1 when the two loads disagree on the executable of stage0.Gen.
"""
import json
import logging
import os
import shutil
import subprocess
import sys
import tempfile
import warnings

warnings.simplefilter('ignore')
HERE = os.path.dirname(os.path.abspath(__file__))
REPO_PY = os.path.join(os.path.dirname(HERE), 'python')
ENV = dict(os.environ, PYTHONPATH=REPO_PY + os.pathsep + HERE + os.pathsep + os.environ.get('PYTHONPATH', ''),
           PYTHONWARNINGS='ignore')
sys.path.insert(0, HERE)
import _dosini_pkg  # noqa

LOAD = r'''
import sys, os, json, glob, logging
logging.disable(logging.CRITICAL)
order = sys.argv[2]
if order != 'filesystem':
    real = glob.glob
    glob.glob = lambda *a, **k: sorted(real(*a, **k), reverse=(order == 'descending'))
import experiment.model.conf
c = experiment.model.conf.ExperimentConfigurationFactory.configurationForExperiment(
    sys.argv[1], createInstanceFiles=False, updateInstanceFiles=False, primitive=True)
k = c.get_flowir_concrete()
print(json.dumps({"stage%d.%s" % cid: k.get_component_configuration(cid, raw=True)['command']['executable']
                  for cid in sorted(k.get_component_identifiers(False))}, sort_keys=True))
'''


def load(pkg, order):
    p = subprocess.run([sys.executable, '-c', LOAD, pkg, order], capture_output=True, text=True, env=ENV)
    if p.returncode:
        return 'ERROR ' + p.stderr.strip().splitlines()[-1][:200]
    return json.loads(p.stdout)


def make(root, first, second):
    """stage0.conf runs `echo`; stage0.orig.conf is an older copy that ran `printf`."""
    pkg = _dosini_pkg.make(root, stage0_executable='echo')
    d = os.path.join(pkg, 'conf', 'stages.d')
    os.remove(os.path.join(d, 'stage0.conf'))
    contents = {'stage0.conf': _dosini_pkg.stage0('echo'), 'stage0.orig.conf': _dosini_pkg.stage0('printf')}
    for name in (first, second):
        with open(os.path.join(d, name), 'w') as f:
            f.write(contents[name])
    return pkg


def main():
    failed = False

    shm = '/dev/shm'
    if os.path.isdir(shm) and os.access(shm, os.W_OK):
        root = tempfile.mkdtemp(prefix='demo3-', dir=shm)
        a = make(os.path.join(root, 'a', 'dos.package'), 'stage0.conf', 'stage0.orig.conf')
        b = make(os.path.join(root, 'b', 'dos.package'), 'stage0.orig.conf', 'stage0.conf')
        same = subprocess.run(['diff', '-r', a, b], capture_output=True).returncode == 0
        print("(a) real file system %s, packages identical (diff -r): %s" % (shm, same))
        ra, rb = load(a, 'filesystem'), load(b, 'filesystem')
        print("    package A lists %s -> %s" % (os.listdir(os.path.join(a, 'conf/stages.d')), ra))
        print("    package B lists %s -> %s" % (os.listdir(os.path.join(b, 'conf/stages.d')), rb))
        if ra != rb:
            failed = True
            print("    DIFFERENT: identical packages load as different workflows")
        shutil.rmtree(root, ignore_errors=True)
    else:
        print("(a) skipped: no writable /dev/shm")

    root = tempfile.mkdtemp(prefix='demo3-')
    pkg = make(os.path.join(root, 'dos.package'), 'stage0.conf', 'stage0.orig.conf')
    asc, desc = load(pkg, 'ascending'), load(pkg, 'descending')
    print("(b) one package, glob results in ascending order  -> %s" % asc)
    print("    one package, glob results in descending order -> %s" % desc)
    if asc != desc:
        failed = True
        print("    DIFFERENT: the workflow depends on the order in which the directory is listed")
    shutil.rmtree(root, ignore_errors=True)

    if failed:
        print("\nDEFECT (C15): stage 0 is defined by whichever of stage0.conf / stage0.orig.conf is listed last "
              "(experiment/model/frontends/dosini.py, Dosini._discover_stages)")
        return 1
    print("no violation observed")
    return 0


if __name__ == '__main__':
    sys.exit(main())
