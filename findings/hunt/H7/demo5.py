#!/usr/bin/env python
"""(outside C14/C15) - ExperimentInstanceDirectory.attempt_fix_hooks_directory() overwrites hooks/__init__.py.

The method is meant to create hooks/__init__.py when the hooks directory has python files but no __init__.py.  It
recognises an existing one with   de.name == '__init__.py' and de.is_dir()   (storage.py:1122) - a regular file is
never a directory, so an existing __init__.py is always "missing" and is re-created with open(path, 'w').
It runs before every use of the hooks of the `interface` section (hooks/interface.py:301,513,749).
"""
import logging
import os
import shutil
import sys
import tempfile
import warnings

warnings.simplefilter('ignore')
HERE = os.path.dirname(os.path.abspath(__file__))
sys.path.insert(0, os.path.join(os.path.dirname(HERE), 'python'))
logging.disable(logging.CRITICAL)
import experiment.model.storage  # noqa


def main():
    d = tempfile.mkdtemp(suffix='.instance')
    os.makedirs(os.path.join(d, 'hooks'))
    os.makedirs(os.path.join(d, 'output'))
    original = "from .common import parse\nUNITS = 'kcal/mol'\n"
    with open(os.path.join(d, 'hooks', '__init__.py'), 'w') as f:
        f.write(original)
    with open(os.path.join(d, 'hooks', 'common.py'), 'w') as f:
        f.write("def parse(x): return x\n")
    with open(os.path.join(d, 'hooks', 'interface.py'), 'w') as f:
        f.write("from hooks import UNITS\ndef get_input_ids(path): return []\n")
    experiment.model.storage.ExperimentInstanceDirectory(d).attempt_fix_hooks_directory()
    with open(os.path.join(d, 'hooks', '__init__.py')) as f:
        now = f.read()
    shutil.rmtree(d, ignore_errors=True)
    print("hooks/__init__.py before: %r" % original)
    print("hooks/__init__.py after : %r" % now)
    if now != original:
        print("DEFECT: the package's hooks/__init__.py was replaced by a generated stub")
        return 1
    return 0


if __name__ == '__main__':
    sys.exit(main())
