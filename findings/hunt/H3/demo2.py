#!/usr/bin/env python
"""demo2: conf/flowir_instance.yaml does not preserve the precedence of the platform blueprint.

In memory (FlowIRConcrete.get_component_configuration) the blueprint layers are
    default global < default stage < PLATFORM global < platform stage < component
FlowIRConcrete.instance() - whose result store_unreplicated_flowir_to_disk() writes to conf/flowir_instance.yaml -
folds "platform global" into "default global" but keeps "default stage" as is. After the file is read back the value of
the platform is therefore hidden by the stage blueprint of the default platform. Components that existed when the file
was written carry their resolved options, so the loss shows as soon as a component is created from the reloaded
description: the next iteration of a DoWhile after a restart runs with different options than all previous iterations.

Run:  cd /tmp/wt/H3 && PYTHONPATH=/tmp/wt/H3/python /venv/bin/python HUNT/demo2.py
"""
import warnings
warnings.filterwarnings('ignore')
import logging
import os
import shutil
import sys
import tempfile

logging.basicConfig(level=logging.CRITICAL)

import experiment.model.data
import experiment.model.storage
import experiment.model.frontends.flowir

FlowIR = experiment.model.frontends.flowir.FlowIR

DOWHILE = """
type: DoWhile
inputBindings:
  number:
    type: output
loopBindings:
  number: add:output
condition: 'add:output'
components:
- name: add
  command:
    executable: "echo"
    arguments: "number:output"
  references:
  - "number:output"
"""

MAIN = """
platforms: [default, hpc]
blueprint:
  default:
    global:
      resourceManager:
        config:
          walltime: 10.0
    stages:
      1:
        resourceManager:
          config:
            walltime: 20.0
  hpc:
    global:
      resourceManager:
        config:
          walltime: 480.0
components:
- stage: 0
  name: GenerateInput
  command:
    executable: "echo"
    arguments: "0"
- stage: 1
  $import: dowhile.yaml
  name: loop
  bindings:
    number: stage0.GenerateInput:output
"""


def walltimes(exp):
    g = exp.experimentGraph.graph
    return {n: g.nodes[n]['getConfiguration'](False)['resourceManager']['config']['walltime']
            for n in sorted(g.nodes)}


def next_iteration(exp, number):
    wg = exp.experimentGraph
    do_while = list(wg._documents[FlowIR.LabelDoWhile].values())[0]['document']
    # this is what the Controller does when the condition of the loop is True (store_flowir_to_disk=True)
    wg.instantiate_dowhile_next_iteration(do_while, number, True)


def main():
    root = tempfile.mkdtemp(prefix='demo2-')
    shadows = []
    try:
        package = os.path.join(root, 'p.package')
        os.makedirs(os.path.join(package, 'conf'))
        with open(os.path.join(package, 'conf', 'flowir_package.yaml'), 'w') as f:
            f.write(MAIN)
        with open(os.path.join(package, 'conf', 'dowhile.yaml'), 'w') as f:
            f.write(DOWHILE)
        os.chdir(root)

        pkg = experiment.model.storage.ExperimentPackage.packageFromLocation(package, platform='hpc')
        exp = experiment.model.data.Experiment.experimentFromPackage(pkg, location=root, platform='hpc')
        exp.validateExperiment(checkExecutables=False)
        shadows.append(exp.instanceDirectory.shadowDir.instancePath)
        instance_dir = exp.instanceDirectory.location

        # control: the same history without a restart
        pkg_c = experiment.model.storage.ExperimentPackage.packageFromLocation(package, platform='hpc')
        control = experiment.model.data.Experiment.experimentFromPackage(pkg_c, location=root, platform='hpc')
        shadows.append(control.instanceDirectory.shadowDir.instancePath)
        next_iteration(control, 1)
        next_iteration(control, 2)
        print("no restart (platform hpc), iterations 0-2 :", walltimes(control))

        next_iteration(exp, 1)
        first_run = walltimes(exp)
        print("run 1 (platform hpc), iterations 0-1      :", first_run)

        # elaunch dies / is stopped; `elaunch.py --platform hpc --restart 1 <instance>` reads conf/flowir_instance.yaml
        del exp
        exp2 = experiment.model.data.Experiment.experimentFromInstance(instance_dir, platform='hpc')
        exp2.validateExperiment(checkExecutables=False)
        next_iteration(exp2, 2)
        second_run = walltimes(exp2)
        print("restarted (platform hpc), iterations 0-2  :", second_run)

        bad = {n: w for n, w in second_run.items() if w != 480.0}
        if bad:
            print("DEFECT: the platform blueprint (walltime 480.0) is hidden by the default stage blueprint after "
                  "conf/flowir_instance.yaml is read back: %s" % bad)
            with open(os.path.join(instance_dir, 'conf', 'flowir_instance.yaml')) as f:
                text = f.read()
            start = text.index('blueprint:')
            print("---- blueprint section of conf/flowir_instance.yaml ----")
            print(text[start:text.index('components:', start)])
            return 1
        print("ok")
        return 0
    finally:
        shutil.rmtree(root, ignore_errors=True)
        for shadow in shadows:
            shutil.rmtree(shadow, ignore_errors=True)


if __name__ == '__main__':
    sys.exit(main())
