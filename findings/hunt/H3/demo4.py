#!/usr/bin/env python
"""demo4 (minor, three small defects of OutputAgent in one script)

 A. the `description` and `type` of a key-output never reach output.txt/output.json: parse_key_outputs() reads them
    from the whole `output` section instead of the entry of the key-output
 B. lines of a multi-line description that start with '#' or ';' are lost when output.txt is converted to output.json
 C. an I/O error while output.txt is read back (second half of updateLogs) replaces output.json by "{}": neither the
    previous nor the new listing

Run:  cd /tmp/wt/H3 && PYTHONPATH=/tmp/wt/H3/python /venv/bin/python HUNT/demo4.py
"""
import warnings
warnings.filterwarnings('ignore')
import builtins
import json
import logging
import os
import shutil
import sys
import tempfile

logging.basicConfig(level=logging.CRITICAL)

import experiment.model.data
import experiment.model.storage
import experiment.runtime.output

FLOWIR = """
output:
  first:
    data-in: stage0.produce/first.txt:copy
    description: "the first output"
    type: csv
components:
- stage: 0
  name: produce
  command:
    executable: echo
    arguments: hello
"""


def main():
    root = tempfile.mkdtemp(prefix='demo4-')
    shadow = None
    failures = []
    try:
        package = os.path.join(root, 'p.package')
        os.makedirs(os.path.join(package, 'conf'))
        with open(os.path.join(package, 'conf', 'flowir_package.yaml'), 'w') as f:
            f.write(FLOWIR)
        os.chdir(root)
        pkg = experiment.model.storage.ExperimentPackage.packageFromLocation(package)
        exp = experiment.model.data.Experiment.experimentFromPackage(pkg, location=root)
        shadow = exp.instanceDirectory.shadowDir.instancePath
        with open(os.path.join(exp.instanceDirectory.location, 'stages/stage0/produce/first.txt'), 'w') as f:
            f.write('1')

        agent = experiment.runtime.output.OutputAgent(exp)
        agent.process_stage(0)
        output_json = os.path.join(exp.instanceDirectory.outputDir, 'output.json')

        def listing():
            with open(output_json) as f:
                return json.load(f)

        # A
        entry = listing()['first']
        print("A. FlowIR says description='the first output', type='csv'; output.json says description=%r type=%r" % (
            entry['description'], entry['type']))
        if entry['description'] != 'the first output' or entry['type'] != 'csv':
            failures.append('A')

        # B
        text = "step 1\n# not a comment\n; neither\nend"
        agent.dataReferences['first']['status']['description'] = text
        agent.updateLogs()
        got = listing()['first']['description']
        print("B. description written %r, read back %r" % (text, got))
        if got != text:
            failures.append('B')

        # C
        before = listing()
        real_open = builtins.open
        output_txt = agent.outputFile

        def flaky_open(path, *args, **kwargs):
            mode = args[0] if args else kwargs.get('mode', 'r')
            if str(path) == output_txt and 'w' not in mode and 'a' not in mode:
                raise OSError(5, 'Input/output error', str(path))   # e.g. EIO / ESTALE on a parallel file-system
            return real_open(path, *args, **kwargs)

        builtins.open = flaky_open
        try:
            agent.updateLogs()
        finally:
            builtins.open = real_open
        after = listing()
        print("C. output.json before the update lists %s; after an update during which reading output.txt back "
              "raised EIO it contains %s" % (sorted(before), after))
        if after != before:
            failures.append('C')

        if failures:
            print("DEFECTS:", ', '.join(failures))
            return 1
        print("ok")
        return 0
    finally:
        shutil.rmtree(root, ignore_errors=True)
        if shadow:
            shutil.rmtree(shadow, ignore_errors=True)


if __name__ == '__main__':
    sys.exit(main())
