#!/usr/bin/env python
"""demo3: the last update of every first run - ExperimentInstanceDirectory.consolidate() - is not atomic.

While an experiment runs `<instance>/output` is a symbolic link to a shadow directory under /tmp. At the end of the run
elaunch writes the final output/status.txt and calls consolidate(), which does

        shutil.copytree(shadow/output, "output-local"); os.unlink("output"); os.rename("output-local", "output")

Between the unlink and the rename the instance has NO output directory: neither the previous version (the link) nor the
new one (the local directory). If the process dies there, or the rename raises, status.txt / output.json /
status_details.json are not found any more and loading the instance silently reports a fresh "Initialising" experiment
whose status cannot even be written.

Run:  cd /tmp/wt/H3 && PYTHONPATH=/tmp/wt/H3/python /venv/bin/python HUNT/demo3.py
"""
import warnings
warnings.filterwarnings('ignore')
import logging
import os
import shutil
import subprocess
import sys
import tempfile

logging.basicConfig(level=logging.CRITICAL)

import experiment.model.data
import experiment.model.storage

FLOWIR = """
components:
- stage: 0
  name: comp
  command:
    executable: echo
    arguments: hello
"""


def child(root):
    """A complete (tiny) run up to the clean-up of elaunch.py; the process dies between unlink() and rename()"""
    package = os.path.join(root, 'p.package')
    os.makedirs(os.path.join(package, 'conf'))
    with open(os.path.join(package, 'conf', 'flowir_package.yaml'), 'w') as f:
        f.write(FLOWIR)
    os.chdir(root)
    pkg = experiment.model.storage.ExperimentPackage.packageFromLocation(package)
    exp = experiment.model.data.Experiment.experimentFromPackage(pkg, location=root)
    print(exp.instanceDirectory.location)
    print(exp.instanceDirectory.shadowDir.instancePath)

    # what elaunch.py does in its "Clean-up" section
    exp.statusFile.setExitStatus('Success')
    exp.statusFile.setExperimentState('finished')
    exp.statusFile.setStageState('finished')
    exp.statusFile.setCurrentStage('stage0')
    exp.statusFile.setTotalProgress(1.0)
    exp.statusFile.persistentUpdate()

    real_rename = os.rename

    def rename(src, dst, *args, **kwargs):
        if src == 'output-local':
            sys.stdout.flush()
            os._exit(9)   # power cut / SIGKILL / OOM-kill exactly here
        return real_rename(src, dst, *args, **kwargs)

    os.rename = rename
    exp.instanceDirectory.consolidate()
    os._exit(0)


def main():
    root = tempfile.mkdtemp(prefix='demo3-')
    shadow = None
    try:
        env = dict(os.environ)
        p = subprocess.run([sys.executable, os.path.abspath(__file__), 'child', root],
                           capture_output=True, text=True, env=env)
        lines = p.stdout.strip().splitlines()
        if p.returncode != 9 or len(lines) < 2:
            print("could not set the scenario up (rc=%s)\n%s\n%s" % (p.returncode, p.stdout, p.stderr[-2000:]))
            return 2
        instance_dir, shadow = lines[0], lines[1]

        print("process died inside consolidate(); the instance directory now contains:", sorted(os.listdir(instance_dir)))
        for name in ('output', 'output-local'):
            path = os.path.join(instance_dir, name, 'status.txt')
            print("  %-28s exists: %s" % (os.path.join(name, 'status.txt'), os.path.exists(path)))

        exp = experiment.model.data.Experiment.experimentFromInstance(instance_dir)
        status = exp.statusFile
        print("status after loading the instance: experiment-state=%s exit-status=%s total-progress=%s" % (
            status.experimentState(), status.data['exit-status'], status.totalProgress()))
        print("Status.update() on the loaded instance succeeds:", status.update())

        if status.data['exit-status'] != 'Success' or status.experimentState() != 'finished':
            print("DEFECT: the final status written before consolidate() (experiment-state=finished, "
                  "exit-status=Success, total-progress=1.0) cannot be loaded: `output` was removed before its "
                  "replacement was in place")
            return 1
        print("ok")
        return 0
    finally:
        shutil.rmtree(root, ignore_errors=True)
        if shadow:
            shutil.rmtree(shadow, ignore_errors=True)


if __name__ == '__main__':
    if len(sys.argv) == 3 and sys.argv[1] == 'child':
        child(sys.argv[2])
    else:
        sys.exit(main())
