#!/usr/bin/env python
"""demo1: restarting from a later stage wipes the key-outputs of earlier stages from output.txt/output.json.

History:
  run 1 : stage0 finishes -> OutputAgent.process_stage(0)  -> output.json lists key-output "first"
  crash / stop; elaunch is started again with --restart 1 (Setup() builds a *new* OutputAgent for the same instance)
  run 2 : stage1 finishes -> OutputAgent.process_stage(1)  -> output.json lists ONLY "second"; "first" is gone

Run:  cd /tmp/wt/H3 && PYTHONPATH=/tmp/wt/H3/python /venv/bin/python HUNT/demo1.py
"""
import warnings
warnings.filterwarnings('ignore')
import json
import logging
import os
import shutil
import sys
import tempfile
import uuid

logging.basicConfig(level=logging.CRITICAL)

import experiment.model.data
import experiment.model.storage
import experiment.runtime.output

FLOWIR = """
output:
  first:
    data-in: stage0.produce/first.txt:copy
  second:
    data-in: stage1.consume/second.txt:copy
components:
- stage: 0
  name: produce
  command:
    executable: echo
    arguments: hello
- stage: 1
  name: consume
  references:
  - stage0.produce:ref
  command:
    executable: echo
    arguments: stage0.produce:ref
"""


def listing(exp):
    path = os.path.join(exp.instanceDirectory.outputDir, 'output.json')
    with open(path) as f:
        return json.load(f)


def main():
    root = tempfile.mkdtemp(prefix='demo1-')
    shadow = None
    try:
        package = os.path.join(root, '%s.package' % uuid.uuid4())
        os.makedirs(os.path.join(package, 'conf'))
        with open(os.path.join(package, 'conf', 'flowir_package.yaml'), 'w') as f:
            f.write(FLOWIR)
        os.chdir(root)
        pkg = experiment.model.storage.ExperimentPackage.packageFromLocation(package)
        exp = experiment.model.data.Experiment.experimentFromPackage(pkg, location=root)
        instance_dir = exp.instanceDirectory.location
        shadow = exp.instanceDirectory.shadowDir.instancePath

        # --- run 1: stage 0 produces its key-output, elaunch calls process_stage(0) when the stage is complete
        with open(os.path.join(instance_dir, 'stages', 'stage0', 'produce', 'first.txt'), 'w') as f:
            f.write('1')
        agent = experiment.runtime.output.OutputAgent(exp)
        agent.checkDataReferences()
        agent.process_stage(0)
        before = listing(exp)
        print("after stage 0 (run 1)          : output.json lists", sorted(before))
        assert sorted(before) == ['first'], before

        # --- the process dies here. `elaunch.py --restart 1 <instance>` loads the instance and builds new agents
        del agent, exp
        exp2 = experiment.model.data.Experiment.experimentFromInstance(instance_dir)
        with open(os.path.join(instance_dir, 'stages', 'stage1', 'consume', 'second.txt'), 'w') as f:
            f.write('2')
        agent2 = experiment.runtime.output.OutputAgent(exp2)
        agent2.checkDataReferences()
        agent2.process_stage(1)
        after = listing(exp2)
        print("after stage 1 (run 2, restarted): output.json lists", sorted(after))

        with open(os.path.join(exp2.instanceDirectory.outputDir, 'output.txt')) as f:
            print("---- output.txt ----\n%s--------------------" % f.read())

        if 'first' not in after:
            print("DEFECT: key-output 'first' (recorded by run 1, file still on disk: %s) vanished from "
                  "output.txt/output.json after the restart" %
                  os.path.exists(os.path.join(instance_dir, before['first']['filepath'])))
            return 1
        if after['first'] != before['first']:
            print("DEFECT: entry of 'first' changed: %s -> %s" % (before['first'], after['first']))
            return 1
        print("ok")
        return 0
    finally:
        shutil.rmtree(root, ignore_errors=True)
        if shadow:
            shutil.rmtree(shadow, ignore_errors=True)


if __name__ == '__main__':
    sys.exit(main())
